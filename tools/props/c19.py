"""C19 -- What is drawn equals the data: points, error bars, curves, residuals, labels.

A *plot script* (JSON) describes a pool of objects (data sets, functions, fit results, histograms), the order in
which they are added to a Plot, and the plot's switches.  `execute` runs it on the implementation, renders through
Plot.savefig into a memory buffer on the Agg backend and reads the artists back from the axes.  The observation is
compared (a) with the Coq model (correspondence, case files evaluated by vm_compute) and (b) with a direct
recomputation from the user's inputs in Python (`oracle`, independent of the model).
"""
import io
import itertools
import json
import math
import os
import time
import warnings
from fractions import Fraction

from vlib import core, coq
from vlib.core import CorrResult, Violation
from vlib.coqfmt import qlit, coq_list, coq_bool, coq_option, codepoints, Interner

ID = "C19"
MANIFEST = {
    "technique": "Rocq proof about an executable model of the plot pipeline (x-range mask, 100-point curves, plot x-domain, "
                 "residuals, histogram counts, labels, legend; single-expression parts regenerated from the source by a "
                 "translator on every run) + vm_compute correspondence against the artists read back from the matplotlib axes "
                 "after savefig on the Agg backend + independent recomputation oracle",
    "level_text": "Machine-checked theorems (C19_select, C19_linspace, C19_domain, C19_residuals, C19_hist, C19_hist_density, C19_hist_cumulative, C19_labels, C19_order, "
                  "C19_history, C19_sessions, C19_legend, C19_fit_curve_partial, closed under the global context) about the data the library "
                  "hands to matplotlib, for all data sets, functions, ranges, object lists, orders of adding (Permutation) and "
                  "histories of adding / switching / rendering (induction over call sequences; the x-range a rendering leaves "
                  "behind in a function is shown to be unobservable). The x-range mask, the "
                  "number of curve points, the label expressions, the label sources, the aggregates of the plot's x-domain and the "
                  "keyword filters are regenerated from plotobjects.py / plotting.py on every run, so changing one of them breaks "
                  "a proof; the hand-written rest is run against the artists of real figures on random plot scripts in all orders "
                  "of adding. Proof is the right level for the pipeline logic (filters, domains, permutations, counting); the "
                  "claim is partial by design: matplotlib's rendering, numpy's histogram/linspace and the Monte Carlo evaluation "
                  "of fit curves are outside the model.",
    "level_note": "PARTIAL: matplotlib (artists -> pixels), numpy.histogram / numpy.linspace (modelled by their exact-arithmetic "
                  "definitions), the Monte Carlo evaluator of fit curves (an oracle function in the model, statistically checked "
                  "at 6 sigma of the sampling error), the propagated uncertainties of residuals (oracle list, compared with "
                  "XYFitResult.residuals) and the printed form of units are trusted / validated only by the correspondence. "
                  "Floating point is modelled by exact rationals and compared at 1e-12.",
    "design_ref": "DESIGN.md section 4 C19",
}
GEN = ["PlotGen"]
PROPS_FILE = "Props/C19.v"
MODEL_TARGETS = ["Model/PlotCases.v"]
EXTRA_TARGETS = ["Model/PlotCases.v"]
TRUSTED = [
    "Model/Plot.v: hand-written pipeline around the generated expressions (object kinds, which object has which x-range, "
    "fit-result wrapper, histogram edges/counts as exact-arithmetic numpy, legend order rule of matplotlib)",
    "tools/gens/plotgen.py: recognised shapes of the mask, linspace call, label expressions, label sources, Plot.xrange",
    "artist reader in tools/props/c19.py (which matplotlib artist belongs to which object; fill_between vertex layout)",
    "matplotlib, numpy.histogram, numpy.linspace, the Monte Carlo evaluator (oracles)",
]
ASSUMPTIONS = [
    "user functions act element-wise on the array of x values and are evaluated by the derivative method unless they are fit curves",
    "histograms: bins (default / integer / ascending sequence with any widths / string rule, whose edges are numpy's), range, "
    "density, weights, cumulative (True/False); at least one sample, at least one bin, bins of non-zero width and a non-zero "
    "total inside them when density is on; histtype / align / rwidth / bottom / log / orientation / stacked are not generated",
    "data sets are non-empty; inputs are finite floats (dyadic rationals in generated cases)",
    "fit curves: agreement with fit_function is statistical (6 sigma of the sampling error of 10000 samples), not exact",
    "fit curves of models that are NOT linear in their parameters (exponential, gaussian) are drawn as the Monte Carlo mean of "
    "f(x; p), which differs from fit_function by a second-order bias; generated cases stay where that bias is far below the "
    "sampling error (relative parameter uncertainties ~1e-4). With sizeable parameter uncertainties the bias exceeds 6 sigma of "
    "the sampling error: recorded as known finding mc-mean-bias:exponential-fit-x5 (corpus/C19), replayed by the oracle on every run",
    "units are compared in the form the library prints them (unit printing is C13's subject)",
    "colours, markers and the choice of the default axis label among several named objects are not order-independent and are "
    "excluded from C19_order (the label source is the first named object, as modelled)",
]

DPI = 20
TOL = 1e-12
ATOL = 1e-11


def _q():
    import qexpy as q
    return q


# =====================================================================================================
# generators
# =====================================================================================================
NAMES = ["", "", "time", "length", "x", "Δt", "mass", "run_2"]
UNITS = ["", "", "s", "m", "kg", "m/s", "kg*m^2/s^2"]
LABELS = [None, None, "first", "curve", "_hidden", "", "data A", "σ-band"]
TITLES = ["", "", "Trial 1", "Δ vs t"]


def dyad(rng, lo, hi, bits=2):
    return rng.randint(lo * 2 ** bits, hi * 2 ** bits) / 2 ** bits


def gen_xs(rng, n, fitable=False):
    if fitable or rng.random() < 0.7:
        start = dyad(rng, -6, 4)
        xs, x = [], start
        for _ in range(n):
            xs.append(x)
            x += rng.choice([0.5, 1.0, 1.0, 1.5, 0.25 if not fitable else 1.0])
        return xs
    xs = [dyad(rng, -6, 8) for _ in range(n)]       # unsorted, duplicates possible
    return xs


def gen_err(rng, n, allow_none=True):
    r = rng.random()
    if allow_none and r < 0.3:
        return None
    if r < 0.55:
        return rng.choice([0.125, 0.25, 0.5, 1.0])
    return [rng.choice([0.0, 0.125, 0.25, 0.5, 0.75, 1.0]) for _ in range(n)]


def gen_range_for(rng, xs):
    """an x-range whose bounds often coincide with data values (boundary cases of low <= x < high)"""
    pts = sorted(set(xs))

    def bound():
        r = rng.random()
        if r < 0.6:
            return rng.choice(pts)
        if r < 0.8:
            return rng.choice(pts) + rng.choice([-0.125, 0.125])
        return dyad(rng, -8, 10)
    lo, hi = bound(), bound()
    if lo > hi:
        lo, hi = hi, lo
    if rng.random() < 0.15:
        lo, hi = (int(lo), int(hi)) if int(lo) <= int(hi) else (lo, hi)
    return [lo, hi]


def gen_names(rng, p=0.5):
    out = {}
    for k in ("xname", "yname"):
        out[k] = rng.choice(NAMES) if rng.random() < p else ""
    for k in ("xunit", "yunit"):
        out[k] = rng.choice(UNITS) if rng.random() < p else ""
    return out


def gen_data(rng, n=None, fitable=False):
    n = n or rng.randint(1 if not fitable else 6, 9)
    xs = gen_xs(rng, n, fitable)
    d = {"kind": "data", "x": xs, "y": [dyad(rng, -10, 10, 3) for _ in range(n)],
         "xerr": gen_err(rng, n), "yerr": gen_err(rng, n) if not fitable else rng.choice([None, 0.25, 0.5]),
         "name": rng.choice([None, None, "set A", "run", "_raw"]),
         "form": rng.choice(["arrays", "arrays", "dataset", "marrays"]),
         "xrange": gen_range_for(rng, xs) if rng.random() < 0.5 else None,
         "label": rng.choice(LABELS), "fmt": rng.choice([None, None, None, "s", "^-"])}
    d.update(gen_names(rng))
    return d


def gen_func(rng):
    deg = rng.randint(0, 3)
    f = {"kind": "func", "cv": [dyad(rng, -3, 3) for _ in range(deg + 1)], "par": None,
         "label": rng.choice(LABELS)}
    r = rng.random()
    if r < 0.25:       # f(x, a, c) = a * P(x) + c with a measured parameter a
        f["par"] = {"a": [dyad(rng, -4, 4), rng.choice([0.0, 0.25, 0.5, 1.0])], "c": dyad(rng, -4, 4),
                    "pa": [dyad(rng, -2, 2) for _ in range(rng.randint(1, 3))], "measured": True}
    elif r < 0.4:      # the same with plain numbers as parameters
        f["par"] = {"a": [dyad(rng, -4, 4), 0.0], "c": dyad(rng, -4, 4),
                    "pa": [dyad(rng, -2, 2) for _ in range(rng.randint(1, 3))], "measured": False}
    r = rng.random()
    if r < 0.45:
        f["xrange"] = None
    elif r < 0.95:
        lo = dyad(rng, -8, 6)
        f["xrange"] = [lo, lo + rng.choice([0.0, 0.5, 1.0, 2.5, 4.0, 8.0])] if rng.random() < 0.9 else [int(lo), int(lo) + 3]
    else:
        f["xrange"] = "empty"          # xrange=() given explicitly
    f.update(gen_names(rng, 0.2))
    return f


MODELS = ["linear", "quadratic", "polynomial", "exponential", "gaussian", "custom"]


def gen_fit(rng, models=MODELS, small_noise=False):
    model = rng.choice(models)
    n = rng.randint(6, 10)
    xs = gen_xs(rng, n, True)
    noise = [rng.randint(-8, 8) / 256 for _ in range(n)]
    nonlinear = model in ("exponential", "gaussian")
    spec = {"kind": "fit", "model": model, "label": rng.choice(LABELS), "via": rng.choice(["fit", "fit", "dataset.fit"])}
    if model == "linear":
        a, b = dyad(rng, -3, 3), dyad(rng, -4, 4)
        ys = [a * x + b for x in xs]
    elif model == "quadratic":
        a, b, c = dyad(rng, -2, 2), dyad(rng, -3, 3), dyad(rng, -4, 4)
        ys = [a * x * x + b * x + c for x in xs]
    elif model == "polynomial":
        deg = rng.choice([1, 3, 3, 4])
        xs = [x / 2 for x in xs]         # keeps x^4 small: the exact model is compared with double arithmetic at 1e-12
        cs = [dyad(rng, -1, 1) for _ in range(deg + 1)]
        ys = [sum(c * x ** k for k, c in enumerate(cs)) for x in xs]
        spec["degrees"] = deg
        n_min = deg + 3
        while len(xs) < n_min:
            xs.append(xs[-1] + 0.5)
            ys.append(sum(c * xs[-1] ** k for k, c in enumerate(cs)))
            noise.append(rng.randint(-8, 8) / 256)
    elif model == "exponential":
        amp, dec = rng.choice([2.0, 3.0, 5.0]), rng.choice([0.25, 0.5, 0.125])
        ys = [amp * math.exp(-dec * x) for x in xs]
        noise = [e / 256 for e in noise]
        spec["parguess"] = [amp * 1.05, dec * 0.95]
    elif model == "gaussian":
        mean = xs[len(xs) // 2] + rng.choice([0.0, 0.25])
        std, norm = rng.choice([1.5, 2.0, 2.5]), rng.choice([4.0, 8.0])
        ys = [norm / math.sqrt(2 * math.pi * std ** 2) * math.exp(-0.5 * (x - mean) ** 2 / std ** 2) for x in xs]
        noise = [e / 256 for e in noise]
        spec["parguess"] = [norm * 1.05, mean + 0.1, std * 0.95]
    else:              # custom model  a*x*x + b
        a, b = dyad(rng, -2, 2), dyad(rng, -4, 4)
        ys = [a * x * x + b for x in xs]
        spec["parguess"] = [1.0, 1.0]
    # keep y dyadic for the polynomial models (so that the residuals are computed from exact inputs)
    ys = [round((y + e) * 4096) / 4096 for y, e in zip(ys, noise)]
    # models that are not linear in their parameters: the curve is drawn as the Monte Carlo MEAN of f(x; p), which differs
    # from f(x; mean p) by a second-order bias; generated cases stay where that bias is far below the sampling error
    # (relative parameter uncertainties ~1e-4); the regime of large uncertainties is the known finding in corpus/C19
    # x uncertainties only with polynomial-type models (numpy.polyfit ignores them); for curve_fit models the effective
    # variance vanishes where the model is flat (a x^2 + b at x = 0) and the fit returns +/- inf parameters
    data = {"kind": "data", "x": xs, "y": ys, "xerr": None if (nonlinear or model == "custom" or rng.random() < 0.75) else 0.125,
            "yerr": rng.choice([None, 0.0625, 0.125]) if not nonlinear else 1 / 4096,
            "name": rng.choice([None, "fitted set"]), "form": "dataset", "xrange": None, "label": None, "fmt": None}
    data.update(gen_names(rng))
    spec["data"] = data
    spec["xrange"] = None
    if rng.random() < 0.3 and model in ("linear", "quadratic", "polynomial"):
        need = {"linear": 4, "quadratic": 5}.get(model, spec.get("degrees", 3) + 3)
        if len(xs) > need:
            i = rng.randint(0, len(xs) - need)
            j = rng.randint(i + need, len(xs))
            hi = xs[j] if j < len(xs) else xs[-1] + 0.5
            spec["xrange"] = [xs[i], hi]
    return spec


def gen_plotfit(rng, target=None):
    """Plot.fit(model, **kw): a polynomial-type fit of the last data set / histogram added so far, with and without
    xrange / parguess / parnames, the model given positionally or as model=..."""
    model = rng.choice(["linear", "quadratic", "polynomial"])
    s = {"kind": "plotfit", "model": model, "label": rng.choice(LABELS), "xrange": None,
         "spelling": rng.choice(["positional", "positional", "keyword"])}
    if model == "polynomial":
        s["degrees"] = rng.choice([1, 3])
    npar = {"linear": 2, "quadratic": 3}.get(model, s.get("degrees", 3) + 1)
    if rng.random() < 0.3:
        s["parguess"] = [dyad(rng, -2, 2) for _ in range(npar)]
    if rng.random() < 0.3:
        s["parnames"] = ["p{}".format(k) for k in range(npar)]
    if target is not None and target["kind"] == "data" and rng.random() < 0.5:
        xs = sorted(set(target["x"]))
        need = npar + 2
        if len(xs) > need:
            i = rng.randint(0, len(xs) - need - 1)
            j = rng.randint(i + need, len(xs))
            s["xrange"] = [xs[i], xs[j] if j < len(xs) else xs[-1] + 0.5]
    return s


def gen_hist(rng):
    n = rng.randint(1, 30)
    samples = [dyad(rng, -8, 8) for _ in range(n)]
    r = rng.random()
    h = {"kind": "hist", "samples": samples, "bins": None, "range": None, "label": rng.choice(LABELS),
         "form": rng.choice(["list", "list", "marray"])}
    if r < 0.15:
        pass
    elif r < 0.65:
        h["bins"] = rng.choice([1, 2, 3, 4, 5, 6, 7, 8])
    else:
        k = rng.randint(2, 6)
        pool = sorted(set([dyad(rng, -9, 9) for _ in range(k)] + rng.sample(samples, min(2, len(samples)))))
        if len(pool) < 2:
            pool = [pool[0], pool[0] + 1.0]
        h["bins"] = pool
    if not isinstance(h["bins"], list) and rng.random() < 0.5:
        lo = rng.choice(samples) if rng.random() < 0.5 else dyad(rng, -9, 6)
        h["range"] = [lo, lo + rng.choice([0.5, 1.0, 2.0, 4.0, 8.0, 12.0])]
        if rng.random() < 0.06:
            h["range"] = [lo, lo]
    # the rest of the keyword space the library forwards: density, weights, cumulative, string rules
    h["density"] = rng.choice([None, None, None, True, True, False])
    h["weights"] = [rng.choice([0.0, 0.25, 0.5, 1.0, 1.0, 2.0, 4.0]) for _ in range(n)] if rng.random() < 0.3 else None
    h["cumulative"] = rng.choice([None, None, None, True, False])
    if h["weights"] is None and not isinstance(h["bins"], list) and rng.random() < 0.15:
        h["bins"] = rng.choice(["auto", "sturges", "sqrt", "doane", "fd"])
    return hist_sane(h)


def hist_sane(h):
    """density needs a non-zero total inside the bins (numpy would return NaN)"""
    if h.get("density"):
        try:
            raw, edges = exp_hist_raw(h)
            if sum(raw) == 0 or any(edges[i + 1] == edges[i] for i in range(len(edges) - 1)):
                h = dict(h, density=None)
        except Exception:  # noqa
            h = dict(h, density=None)
    return h


def gen_settings(rng, has_fit=False):
    s = {"error_bars": rng.random() < 0.65, "residuals": rng.random() < (0.7 if has_fit else 0.25),
         "legend": rng.random() < 0.5, "xrange": None, "title": rng.choice(TITLES),
         "xname": "", "yname": "", "xunit": "", "yunit": "", "entry": rng.choice(["class", "class", "module"]),
         "renders": 1 if rng.random() < 0.85 else 2, "settings_first": rng.random() < 0.5}
    if rng.random() < 0.15:
        lo = dyad(rng, -8, 6)
        s["xrange"] = [lo, lo + rng.choice([1.0, 2.5, 6.0])]
    for k in ("xname", "yname"):
        if rng.random() < 0.15:
            s[k] = rng.choice(["override", "t"])
    for k in ("xunit", "yunit"):
        if rng.random() < 0.15:
            s[k] = rng.choice(["J", "cm"])
    return s


def gen_script(rng, kind=None):
    """kind: mixed | fit | hist | labels | malformed"""
    kind = kind or rng.choice(["mixed", "mixed", "mixed", "fit", "fit", "hist", "labels"])
    objs = []
    if kind == "mixed":
        for _ in range(rng.randint(1, 4)):
            objs.append(rng.choice([gen_data, gen_data, gen_func, gen_func, gen_hist])(rng))
    elif kind == "fit":
        objs.append(gen_fit(rng))
        for _ in range(rng.randint(0, 2)):
            objs.append(rng.choice([gen_data, gen_func])(rng))
        if rng.random() < 0.5:
            objs.insert(0, dict(objs[0]["data"], label=rng.choice(LABELS)))
        if rng.random() < 0.35:
            objs.append(gen_data(rng, fitable=True))
            objs.append(gen_plotfit(rng, objs[-1]))
    elif kind == "hist":
        objs.append(gen_hist(rng))
        for _ in range(rng.randint(0, 2)):
            objs.append(rng.choice([gen_hist, gen_func, gen_data])(rng))
        if rng.random() < 0.3:
            h = dict(gen_hist(rng), bins=rng.choice([5, 6, 8]), range=None, weights=None)
            h["samples"] = [dyad(rng, -8, 8) for _ in range(rng.randint(12, 30))]
            h = hist_sane(h)
            objs.append(h)
            objs.append(gen_plotfit(rng))
    elif kind == "labels":
        for _ in range(rng.randint(1, 4)):
            o = rng.choice([gen_data, gen_data, gen_func])(rng)
            o.update(gen_names(rng, 0.6))
            if o["kind"] == "func" and o["xrange"] == "empty":
                o["xrange"] = [0.0, 1.0]
            objs.append(o)
    else:  # malformed: plots that cannot be rendered
        r = rng.random()
        if r < 0.3:
            objs = [dict(gen_func(rng), xrange=None) for _ in range(rng.randint(0, 2))]
        elif r < 0.6:
            objs = [gen_data(rng), dict(gen_func(rng), xrange="empty")]
            rng.shuffle(objs)
        else:
            objs = [dict(gen_func(rng), xrange=rng.choice([None, "empty"])) for _ in range(rng.randint(1, 3))]
    has_fit = any(o["kind"] in ("fit", "plotfit") for o in objs)
    st = gen_settings(rng, has_fit)
    if len(objs) >= 2 and rng.random() < 0.3:
        # a history: the plot is also rendered once after the first k objects (which leaves an x-range behind in the
        # functions that have none of their own), then the remaining objects are added
        st["early_render"] = rng.randint(1, len(objs) - 1)
    return vary(rng, {"seed": rng.randrange(2 ** 31), "objects": objs, "settings": st, "kind": kind})



# ---- further input dimensions (applied on top of a generated script; the expected drawing does not change) -------------
SPECIAL_X = [0.0, 1.0, -1.0, 2.0, 10.0, 100.0, 0.5, -2.0]


def vary(rng, script, allow_scale=True):
    import copy
    objs = script["objects"]
    for o in objs:
        if o["kind"] == "data":
            if rng.random() < 0.12:                   # special values as abscissae
                o["x"] = [rng.choice(SPECIAL_X) for _ in o["x"]]
                if o["xrange"] is not None:
                    o["xrange"] = gen_range_for(rng, o["x"])
            if rng.random() < 0.15:                   # descending order
                k = sorted(range(len(o["x"])), key=lambda i: -o["x"][i])
                o.update(cut_data(o, k))
            if isinstance(o["yerr"], list) and o["yerr"] and rng.random() < 0.3:
                o["yerr"] = list(o["yerr"])
                o["yerr"][rng.randrange(len(o["yerr"]))] = 2.0 ** -30     # one tiny uncertainty among ordinary ones
            if rng.random() < 0.3:
                o["numtype"] = rng.choice(["int", "ndarray", "float32", "npint", "mixed"])
            if o["form"] == "arrays" and rng.random() < 0.3:
                o["spelling"] = "keywords"
            if rng.random() < 0.25:
                o["preread"] = True
            if o["form"] == "dataset" and rng.random() < 0.3:
                m = {}
                if rng.random() < 0.7:
                    m["y"] = [rng.randrange(len(o["y"])), dyad(rng, -10, 10, 3)]
                if rng.random() < 0.5:
                    m["xerr"] = [rng.randrange(len(o["x"])), rng.choice([0.0, 0.25, 1.5])]
                for k in ("xname", "yname"):
                    if rng.random() < 0.3:
                        m[k] = rng.choice(["changed", "", "time"])
                for k in ("xunit", "yunit"):
                    if rng.random() < 0.3:
                        m[k] = rng.choice(["", "A", "m"])
                if m:
                    o["mutate"] = m
        elif o["kind"] == "func":
            if rng.random() < 0.25:
                o["numtype"] = rng.choice(["int", "ndarray"])
        elif o["kind"] == "hist":
            if rng.random() < 0.3:
                o["numtype"] = rng.choice(["int", "ndarray", "npint", "float32"])
        elif o["kind"] in ("fit", "plotfit"):
            if rng.random() < 0.3:
                o["preread"] = True
    if objs and rng.random() < 0.15:                  # equal values (and names, labels) in DISTINCT objects
        src = rng.choice(objs)
        if src["kind"] in ("data", "func", "hist"):
            dup = copy.deepcopy(src)
            dup.pop("mutate", None)
            objs.insert(rng.randint(0, len(objs)), dup) if not any(o["kind"] == "plotfit" for o in objs) else objs.append(dup)
    st = script["settings"]
    st["render_via"] = rng.choice(["savefig", "savefig", "savefig", "show", "module-show", "module-savefig-obj"])
    if rng.random() < 0.2:
        st["bad_calls"] = rng.sample(BAD_CALLS, rng.randint(1, 3))
    if allow_scale and rng.random() < 0.2 and scalable(script):
        apply_scale(script, rng.choice([2.0 ** -40, 2.0 ** -30, 2.0 ** 30]))
    return script


def scalable(script):
    for o in script["objects"]:
        if o["kind"] == "fit" and o["model"] not in ("linear", "quadratic"):
            return False
        if o["kind"] == "plotfit" and o["model"] == "polynomial":
            return False
        if o["kind"] == "hist" and isinstance(o["bins"], str):
            return False
    return True


def apply_scale(script, S):
    """x, y, uncertainties and ranges of everything on the plot times S (a power of two, so the doubles stay exact);
    functions become S * f(x / S); counts stay counts, densities scale with 1 / S"""
    def sc(v):
        if v is None or isinstance(v, str):
            return v
        if isinstance(v, list):
            return [x * S for x in v]
        return v * S

    def sdata(d):
        for k in ("x", "y", "xerr", "yerr", "xrange"):
            d[k] = sc(d[k])
        m = d.get("mutate")
        if m:
            for k in ("y", "xerr"):
                if k in m:
                    m[k] = [m[k][0], m[k][1] * S]
    for o in script["objects"]:
        if o["kind"] == "data":
            sdata(o)
        elif o["kind"] == "func":
            o["cv"] = [c * S ** (1 - k) for k, c in enumerate(o["cv"])]
            if o["par"]:
                o["par"] = dict(o["par"], pa=[c * S ** (1 - k) for k, c in enumerate(o["par"]["pa"])], c=o["par"]["c"] * S)
            o["xrange"] = sc(o["xrange"])
        elif o["kind"] == "fit":
            sdata(o["data"])
            o["xrange"] = sc(o["xrange"])
        elif o["kind"] == "plotfit":
            o["xrange"] = sc(o.get("xrange"))
        elif o["kind"] == "hist":
            o["samples"] = sc(o["samples"])
            o["range"] = sc(o["range"])
            if isinstance(o["bins"], list):
                o["bins"] = sc(o["bins"])
            o.update(hist_sane(o))       # (a zero-width range is widened by an ABSOLUTE 0.5 on each side)
    script["settings"]["xrange"] = sc(script["settings"]["xrange"])
    script["scale"] = S


def gen_order_set(rng, k):
    """a small pool of order-independent objects, to be added in every order"""
    objs = []
    for _ in range(k):
        r = rng.random()
        if r < 0.35:
            objs.append(gen_data(rng))
        elif r < 0.7:
            objs.append(gen_func(rng))
        elif r < 0.85:
            objs.append(gen_hist(rng))
        else:
            objs.append(gen_fit(rng, ["linear", "quadratic", "polynomial"]))
    for o in objs:
        if o["kind"] == "func" and o["xrange"] == "empty":
            o["xrange"] = None
    if not any(o["kind"] == "func" and o["xrange"] is None for o in objs):
        objs[rng.randrange(len(objs))] = dict(gen_func(rng), xrange=None)
    has_fit = any(o["kind"] == "fit" for o in objs)
    st = gen_settings(rng, has_fit)
    st["renders"] = 1
    return vary(rng, {"seed": rng.randrange(2 ** 31), "objects": objs, "settings": st, "kind": "orders"})


# =====================================================================================================
# running a script on the implementation
# =====================================================================================================
_CLASS_STATE = None


def _mutable_state():
    """(owner, name, value) of every dict / list / set held at class or module level by the plotting package"""
    import qexpy.plotting.plotting as P
    import qexpy.plotting.plotobjects as PO
    out = []
    for mod in (P, PO):
        owners = [mod] + [c for c in vars(mod).values() if isinstance(c, type) and c.__module__ == mod.__name__]
        for owner in owners:
            for name, val in list(vars(owner).items()):
                if isinstance(val, (dict, list, set)) and not name.startswith("__"):
                    out.append((owner, name, val))
    return out


def restore_class_state():
    """every case starts from the state of a freshly started interpreter: mutable class-level / module-level state of the
    plotting package is put back (in place) to what it was right after import, so that a recorded failing input does not
    depend on what the same process ran before it"""
    global _CLASS_STATE
    import copy
    if _CLASS_STATE is None:
        _CLASS_STATE = [(o, n, copy.deepcopy(v)) for o, n, v in _mutable_state()]
        return
    for owner, name, fresh in _CLASS_STATE:
        cur = vars(owner).get(name)
        if isinstance(cur, dict) and isinstance(fresh, dict):
            cur.clear()
            cur.update(copy.deepcopy(fresh))
        elif isinstance(cur, list) and isinstance(fresh, list):
            cur[:] = copy.deepcopy(fresh)
        elif isinstance(cur, set) and isinstance(fresh, set):
            cur.clear()
            cur.update(fresh)
        else:
            setattr(owner, name, copy.deepcopy(fresh))


def reset_impl():
    q = _q()
    restore_class_state()
    import qexpy.settings.settings as S
    S.Settings._Settings__instance = None
    q.reset_default_configuration()
    import qexpy.plotting.plotting as P
    P.Plot.current_plot_buffer = None
    import matplotlib.pyplot as plt
    plt.close("all")


def poly_eval(cs, x):
    """polynomial with coefficients lowest power first (works on floats, arrays and quantities)"""
    acc = 0.0
    for c in reversed(cs):
        acc = acc * x + c
    return acc


def make_function(spec):
    cv, par = spec["cv"], spec["par"]
    if par is None:
        def f(x):
            return poly_eval(cv, x) + 0 * x
        return f, {}
    pa = par["pa"]

    def g(x, a, c):
        return a * poly_eval(pa, x) + c + poly_eval(cv, x)
    q = _q()
    a = q.Measurement(par["a"][0], par["a"][1]) if par["measured"] else par["a"][0]
    return g, {"pars": [a, par["c"]]}


def func_coeffs(spec):
    """(value polynomial, uncertainty polynomial) of a generated function, lowest power first, as Fractions"""
    cv = [Fraction(c) for c in spec["cv"]]
    ce = [Fraction(0)]
    par = spec["par"]
    if par:
        pa = [Fraction(c) for c in par["pa"]]
        n = max(len(cv), len(pa))
        cv = cv + [Fraction(0)] * (n - len(cv))
        for k, c in enumerate(pa):
            cv[k] += Fraction(par["a"][0]) * c
        cv[0] += Fraction(par["c"])
        ce = [Fraction(par["a"][1]) * c for c in pa] if par["measured"] else [Fraction(0)]
    return cv, ce


def data_kwargs(d, with_range=True):
    kw = {}
    for k in ("xerr", "yerr"):
        if d[k] is not None:
            kw[k] = d[k]
    for k in ("xname", "yname", "xunit", "yunit"):
        if d[k]:
            kw[k] = d[k]
    if d["name"] is not None:
        kw["name"] = d["name"]
    return kw


def build_dataset(d):
    q = _q()
    return q.XYDataSet(list(d["x"]), list(d["y"]), **data_kwargs(d))


def effective(spec):
    """the object as the user last left it: a data set given as an XYDataSet may be changed through its public
    attributes after it was added to the plot (spec["mutate"]); what must be drawn is its state at rendering time"""
    m = spec.get("mutate")
    if not m or spec["kind"] != "data":
        return spec
    d = dict(spec, mutate=None)
    n = len(d["x"])
    if "y" in m:
        d["y"] = list(d["y"])
        d["y"][m["y"][0]] = m["y"][1]
    if "xerr" in m:
        d["xerr"] = err_list(d["xerr"], n)
        d["xerr"][m["xerr"][0]] = m["xerr"][1]
    for k in ("xname", "yname", "xunit", "yunit"):
        if k in m:
            d[k] = m[k]
    return d


def mutate_dataset(ds, m):
    if "y" in m:
        ds.ydata[m["y"][0]].value = m["y"][1]
    if "xerr" in m:
        ds.xdata[m["xerr"][0]].error = m["xerr"][1]
    for k in ("xname", "yname", "xunit", "yunit"):
        if k in m:
            setattr(ds, k, m[k])


def as_numtype(values, numtype, integral_ok=True):
    """the same numbers handed over as another number / container type"""
    import numpy as np
    vals = list(values)
    if numtype == "int" and all(float(v).is_integer() and abs(v) < 2 ** 40 for v in vals):
        return [int(v) for v in vals]
    if numtype == "ndarray":
        return np.asarray(vals, dtype=float)
    if numtype == "float32" and all(float(np.float32(v)) == v for v in vals):
        return np.asarray(vals, dtype=np.float32)
    if numtype == "npint" and all(float(v).is_integer() and abs(v) < 2 ** 40 for v in vals):
        return np.asarray([int(v) for v in vals], dtype=np.int64)
    if numtype == "mixed":
        from fractions import Fraction as F
        out = []
        for k, v in enumerate(vals):
            if v in (0.0, 1.0) and k % 2 == 0:
                out.append(bool(v))
            elif k % 3 == 0:
                out.append(F(v))
            elif k % 3 == 1:
                out.append(np.float64(v))
            else:
                out.append(v)
        return out
    return vals


def as_range(r, numtype):
    import numpy as np
    if numtype in ("ndarray", "npint", "float32", "mixed"):
        return (np.float64(r[0]), np.float64(r[1]))
    if numtype == "int" and all(float(v).is_integer() for v in r):
        return [int(r[0]), int(r[1])]
    return tuple(r)


def pre_read(obj):
    """read / print an object before it is used (a memoised or half-initialised state would show afterwards)"""
    try:
        str(obj)
        for attr in ("xvalues", "yvalues", "xerr", "yerr", "xname", "xunit", "residuals", "chi_squared", "params"):
            if hasattr(obj, attr):
                v = getattr(obj, attr)
                if attr in ("residuals", "params"):
                    [str(t) for t in v]
    except Exception:  # noqa
        pass


BAD_CALLS = ["xrange-reversed", "plot-xrange-reversed", "title-number", "plot-number", "plot-lengths", "hist-string",
             "function-without-pars", "xname-number", "fit-nothing-sensible"]


def bad_call(p, name):
    """an invalid request; it is offered twice; whether it raises is not C19's business -- the later rendering must
    show the plot as if the call had never been made"""
    for _ in range(2):
        try:
            if name == "xrange-reversed":
                p.plot([1.0, 2.0], [3.0, 4.0], xrange=(5, 1))
            elif name == "plot-xrange-reversed":
                p.xrange = (3, 1)
            elif name == "title-number":
                p.title = 5
            elif name == "plot-number":
                p.plot(3)
            elif name == "plot-lengths":
                p.plot([1.0, 2.0], [1.0, 2.0, 3.0])
            elif name == "hist-string":
                p.hist("abc")
            elif name == "function-without-pars":
                p.plot(lambda x, a: a * x)
            elif name == "xname-number":
                p.xname = 7
            elif name == "fit-nothing-sensible":
                p.fit(model=17)
        except Exception:  # noqa
            pass


def add_object(p, spec, handles, shared=None):
    """add one object to Plot p; returns the user-level handle kept for the oracle"""
    q = _q()
    kind = spec["kind"]
    if kind == "data":
        kw = {}
        nt = spec.get("numtype")
        if spec["xrange"] is not None:
            kw["xrange"] = as_range(spec["xrange"], nt)
        if spec["label"] is not None:
            kw["label"] = spec["label"]
        if spec.get("fmt"):
            kw["fmt"] = spec["fmt"]
        xs, ys = as_numtype(spec["x"], nt), as_numtype(spec["y"], nt)
        if spec["form"] == "dataset":
            key = spec.get("shared")
            if shared is not None and key is not None and key in shared:
                ds = shared[key]                 # the SAME XYDataSet object, also drawn on another plot
            else:
                ds = q.XYDataSet(xs, ys, **data_kwargs(spec))
                if shared is not None and key is not None:
                    shared[key] = ds
            if spec.get("preread"):
                pre_read(ds)
            p.plot(ds, **kw)
            if spec.get("mutate"):
                mutate_dataset(ds, spec["mutate"])
            return {"dataset": ds}
        if spec["form"] == "marrays":
            xa = q.MeasurementArray(xs, spec["xerr"], name=spec["xname"], unit=spec["xunit"])
            ya = q.MeasurementArray(ys, spec["yerr"], name=spec["yname"], unit=spec["yunit"])
            if spec["name"] is not None:
                kw["name"] = spec["name"]
            if spec.get("preread"):
                pre_read(xa)
                pre_read(ya)
            p.plot(xa, ya, **kw)
            return {}
        kw.update(data_kwargs(spec))
        if spec.get("spelling") == "keywords":       # the keyword spelling of the same call
            p.plot(xdata=xs, ydata=ys, **kw)
        else:
            p.plot(xs, ys, **kw)
        return {}
    if kind == "func":
        f, kw = make_function(spec)
        if spec["xrange"] == "empty":
            kw["xrange"] = ()
        elif spec["xrange"] is not None:
            kw["xrange"] = as_range(spec["xrange"], spec.get("numtype"))
        if spec["label"] is not None:
            kw["label"] = spec["label"]
        for k in ("xname", "yname", "xunit", "yunit"):
            if spec[k]:
                kw[k] = spec[k]
        p.plot(f, **kw)
        return {}
    if kind == "fit":
        ds = build_dataset(spec["data"])
        kw = {}
        for k in ("degrees", "parguess"):
            if k in spec:
                kw[k] = spec[k]
        if spec["xrange"] is not None:
            kw["xrange"] = tuple(spec["xrange"])
        model = spec["model"]
        if model == "custom":
            def model(x, a, b):
                return a * x * x + b
        r = ds.fit(model, **kw) if spec["via"] == "dataset.fit" else q.fit(ds, model, **kw)
        if spec.get("preread"):
            pre_read(r)
            pre_read(ds)
        pk = {}
        if spec["label"] is not None:
            pk["label"] = spec["label"]
        p.plot(r, **pk)
        return {"fit": r, "dataset": ds}
    if kind == "plotfit":
        kw = {}
        if "degrees" in spec:
            kw["degrees"] = spec["degrees"]
        if spec["label"] is not None:
            kw["label"] = spec["label"]
        for k in ("parguess", "parnames"):
            if spec.get(k) is not None:
                kw[k] = list(spec[k])
        if spec.get("xrange") is not None:
            kw["xrange"] = tuple(spec["xrange"])
        r = p.fit(model=spec["model"], **kw) if spec.get("spelling") == "keyword" else p.fit(spec["model"], **kw)
        if spec.get("preread"):
            pre_read(r)
        return {"fit": r, "dataset": r.dataset}
    if kind == "hist":
        kw = {}
        if spec["bins"] is not None:
            kw["bins"] = spec["bins"]
        if spec["range"] is not None:
            kw["range"] = tuple(spec["range"])
        if spec["label"] is not None:
            kw["label"] = spec["label"]
        for k in ("density", "cumulative"):
            if spec.get(k) is not None:
                kw[k] = spec[k]
        if spec.get("weights") is not None:
            kw["weights"] = list(spec["weights"])
        samples = as_numtype(spec["samples"], spec.get("numtype"))
        if not isinstance(samples, list) and spec["form"] != "marray":
            pass                                     # a numpy array of samples is accepted as it is
        if spec["form"] == "marray":
            samples = q.MeasurementArray(samples, 0.25)
        n, edges = p.hist(samples, **kw)
        return {"returned": ([float(v) for v in n], [float(e) for e in edges])}
    raise ValueError(kind)


def apply_settings(p, st):
    p.error_bars(st["error_bars"])
    p.residuals(st["residuals"])
    p.legend(st["legend"])
    if st["xrange"] is not None:
        p.xrange = tuple(st["xrange"])
    if st["title"]:
        p.title = st["title"]
    for k in ("xname", "yname", "xunit", "yunit"):
        if st[k]:
            setattr(p, k, st[k])


class Structure(Exception):
    """the artists on the axes are not the ones the objects of the plot should produce"""


def fl(a):
    out = [float(v) for v in a]
    if any(v != v or v in (float("inf"), float("-inf")) for v in out):
        raise Structure("a NaN or infinite value is handed to matplotlib")
    return out


def read_errorbar(cont):
    dl, caps, bars = cont.lines
    if dl is None or len(bars) != 2 or not (cont.has_xerr and cont.has_yerr):
        raise Structure("errorbar container without data line / x and y bars")
    xs, ys = fl(dl.get_xdata()), fl(dl.get_ydata())
    segs = []
    for b in bars:
        ss = [[float(s[0][0]), float(s[0][1]), float(s[1][0]), float(s[1][1])] for s in b.get_segments()]
        segs.append(ss)
    return dl, bars, {"x": xs, "y": ys, "xbars": segs[0], "ybars": segs[1]}


def read_band(coll, n):
    paths = coll.get_paths()
    if len(paths) != 1:
        raise Structure("filled band with {} polygons".format(len(paths)))
    v = paths[0].vertices
    if len(v) != 2 * n + 3:
        raise Structure("filled band with {} vertices for {} curve points".format(len(v), n))
    lower, upper = v[1:n + 1], v[n + 2:2 * n + 2][::-1]
    return {"bx_lo": fl(lower[:, 0]), "bx_hi": fl(upper[:, 0]), "lower": fl(lower[:, 1]), "upper": fl(upper[:, 1])}


class AxesReader:
    def __init__(self, ax):
        from matplotlib.container import ErrorbarContainer, BarContainer
        self.EC, self.BC = ErrorbarContainer, BarContainer
        self.lines = list(ax.lines)
        self.colls = list(ax.collections)
        self.conts = list(ax.containers)
        self.patches = list(ax.patches)
        self.texts = list(ax.texts)

    def data(self, eb):
        if not eb:
            if not self.lines:
                raise Structure("no line for a data set")
            ln = self.lines.pop(0)
            return {"x": fl(ln.get_xdata()), "y": fl(ln.get_ydata())}
        if not self.conts or not isinstance(self.conts[0], self.EC):
            raise Structure("no errorbar container for a data set")
        dl, bars, out = read_errorbar(self.conts.pop(0))
        if not self.lines or self.lines[0] is not dl:
            raise Structure("errorbar data line is not the next line of the axes")
        self.lines.pop(0)
        for b in bars:
            if not self.colls or self.colls[0] is not b:
                raise Structure("errorbar line collection is not the next collection of the axes")
            self.colls.pop(0)
        return out

    def curve(self, eb):
        if not self.lines:
            raise Structure("no line for a function")
        ln = self.lines.pop(0)
        out = {"x": fl(ln.get_xdata()), "y": fl(ln.get_ydata())}
        if eb:
            from matplotlib.collections import PolyCollection
            if not self.colls or not isinstance(self.colls[0], PolyCollection):
                raise Structure("no filled band for a function")
            band = read_band(self.colls.pop(0), len(out["x"]))
            if band["bx_lo"] != out["x"] or band["bx_hi"] != out["x"]:
                raise Structure("the filled band is not drawn over the abscissae of its curve")
            out["lower"], out["upper"] = band["lower"], band["upper"]
        return out

    def hist(self):
        if not self.conts or not isinstance(self.conts[0], self.BC):
            raise Structure("no bar container for a histogram")
        c = self.conts.pop(0)
        bars = []
        for r in c.patches:
            if not self.patches or self.patches[0] is not r:
                raise Structure("histogram bar is not the next patch of the axes")
            self.patches.pop(0)
            bars.append([float(r.get_x()), float(r.get_width()), float(r.get_height())])
            if float(r.get_y()) != 0.0:
                raise Structure("histogram bar does not start at zero")
        return {"bars": bars}

    def done(self, what):
        left = len(self.lines) + len(self.colls) + len(self.conts) + len(self.patches)
        if left:
            raise Structure("{} artists on the {} axes belong to no object".format(left, what))


def read_figure(p, specs, st):
    eb = st["error_bars"]
    main = AxesReader(p.main_ax)
    res = AxesReader(p.res_ax) if p.res_ax is not None else None
    if st["residuals"] != (res is not None):
        raise Structure("residual axes present: {} but the switch is {}".format(res is not None, st["residuals"]))
    out = []
    for spec in specs:
        k = spec["kind"]
        if k == "data":
            out.append(dict(main.data(eb), kind="data"))
        elif k == "func":
            out.append(dict(main.curve(eb), kind="func"))
        elif k in ("fit", "plotfit"):
            o = dict(main.curve(eb), kind="fit")
            o["res"] = res.data(eb) if res is not None else None
            out.append(o)
        else:
            out.append(dict(main.hist(), kind="hist"))
    main.done("main")
    if res is not None:
        res.done("residual")
    lg = p.main_ax.get_legend()
    obs = {"objects": out, "xlabel": p.main_ax.get_xlabel(), "ylabel": p.main_ax.get_ylabel(),
           "title": p.main_ax.get_title(),
           "legend": [t.get_text() for t in lg.get_texts()] if lg is not None else None,
           "res_xlabel": p.res_ax.get_xlabel() if p.res_ax is not None else None,
           "res_ylabel": p.res_ax.get_ylabel() if p.res_ax is not None else None}
    return obs


def printed_unit(u):
    if not u:
        return ""
    return _q().MeasurementArray([1.0], unit=u).unit


def observe_plot(p, specs, st, handles, obs, renders=1, via_module=False):
    """render Plot p (whose objects were made from specs, with the switches / labels st set on it) and read the artists
    back into obs; returns the auxiliary user-level information about the objects"""
    import numpy as np
    import qexpy.plotting as qp
    q = _q()
    aux = []
    try:
        figs = []
        for _ in range(renders):
            buf = io.BytesIO()
            how = st.get("render_via", "savefig")
            if how == "show":                          # every public entry point of the same behaviour
                p.show()
            elif how == "module-show":
                qp.show(p)
            elif how == "module-savefig-obj":
                qp.savefig(buf, plot_obj=p, format="png", dpi=DPI)
            elif via_module and qp.get_plot() is p:
                qp.savefig(buf, format="png", dpi=DPI)
            else:
                p.savefig(buf, format="png", dpi=DPI)
            if how not in ("show", "module-show") and not buf.getvalue().startswith(b"\x89PNG"):
                raise Structure("savefig did not write a PNG image")
            figs.append(read_figure(p, specs, st))
        obs.update(figs[-1])
        obs["first_render"] = figs[0] if len(figs) > 1 else None
        mc_now = q.get_settings().monte_carlo_sample_size
        if mc_now != 10000:
            raise Structure("Monte Carlo sample size left at {} after rendering".format(mc_now))
    except Structure as e:
        obs["status"] = "structure"
        obs["error"] = str(e)
    except Exception as e:  # noqa
        from qexpy.utils.exceptions import UndefinedActionError
        if isinstance(e, ValueError) and "iterable argument is empty" in str(e) or isinstance(e, ValueError) and "empty sequence" in str(e):
            obs["status"] = "no-domain"
        elif isinstance(e, UndefinedActionError):
            obs["status"] = "no-function-domain"
        else:
            obs["status"] = "error"
        obs["error"] = "{}: {}".format(type(e).__name__, str(e)[:200])
    # auxiliary, user-level information about the objects (for the model's oracle inputs and the reference)
    for spec, h, o in zip(specs, handles, obs.get("objects", [None] * len(specs))):
        a = {}
        if spec["kind"] == "data":
            a["units"] = [printed_unit(effective(spec)["xunit"]), printed_unit(effective(spec)["yunit"])]
        if spec["kind"] in ("fit", "plotfit"):
            r = h["fit"]
            ds = r.dataset
            a["params"] = [float(v.value) for v in r.params]
            a["fit_xrange"] = list(r.xrange) if r.xrange else None
            a["ds"] = {"x": fl(ds.xvalues), "y": fl(ds.yvalues), "xerr": fl(ds.xerr), "yerr": fl(ds.yerr),
                       "name": ds.name, "xname": ds.xname, "yname": ds.yname, "xunit": ds.xunit, "yunit": ds.yunit}
            a["residuals"] = [float(v.value) for v in r.residuals]
            a["residual_errors"] = [float(v.error) for v in r.residuals]
            a["fitfn_at_data"] = [float(v.value) for v in r.fit_function(np.asarray(ds.xvalues, dtype=float))]
            if o is not None:
                at_curve = r.fit_function(np.asarray(o["x"], dtype=float))
                a["fitfn_at_curve"] = [float(v.value) for v in at_curve]
                a["fitfn_err_at_curve"] = [float(v.error) for v in at_curve]
        aux.append(a)
    return aux


def execute(script, order=None):
    """run the script on the implementation; returns {"obs": ..., "aux": ...}; everything JSON-able"""
    import numpy as np
    import matplotlib.pyplot as plt
    q = _q()
    warnings.simplefilter("ignore")
    reset_impl()
    np.random.seed(script["seed"])
    st = script["settings"]
    order = list(range(len(script["objects"]))) if order is None else order
    specs = [script["objects"][i] for i in order]
    import qexpy.plotting.plotting as P
    import qexpy.plotting as qp
    obs = {"status": "ok", "returned": []}
    try:
        p = None
        handles = []
        if st["entry"] == "class" or not specs or specs[0]["kind"] == "plotfit":
            p = P.Plot()
            if st["settings_first"]:
                apply_settings(p, st)
        for i, spec in enumerate(specs):
            if p is None:            # module-level entry point for the first object
                shim = _FirstCall(qp, spec)
                h = add_object(shim, spec, handles)
                p = shim.plot_obj
                if qp.get_plot() is not p:
                    raise Structure("get_plot() is not the plot returned by the module-level call")
                if st["settings_first"]:
                    apply_settings(p, st)
            else:
                h = add_object(p, spec, handles)
            handles.append(h)
            if "returned" in h:
                obs["returned"].append(h["returned"])
            if st.get("early_render") == i + 1:
                try:
                    p.savefig(io.BytesIO(), format="png", dpi=DPI)
                except Exception:  # noqa -- a plot that cannot be rendered yet
                    pass
                plt.close("all")
        if not st["settings_first"]:
            apply_settings(p, st)
        for name in st.get("bad_calls", []):
            bad_call(p, name)
    except Exception as e:  # noqa
        plt.close("all")
        return {"obs": {"status": "add-error", "error": "{}: {}".format(type(e).__name__, str(e)[:200])}, "aux": []}
    aux = observe_plot(p, specs, st, handles, obs, st["renders"], st["entry"] == "module")
    plt.close("all")
    reset_impl()
    return {"obs": obs, "aux": aux}


class _FirstCall:
    """routes the first add through the module-level functions qexpy.plotting.plot / hist"""

    def __init__(self, qp, spec):
        self.qp, self.plot_obj = qp, None

    def plot(self, *a, **k):
        self.plot_obj = self.qp.plot(*a, **k)

    def hist(self, *a, **k):
        n, edges, self.plot_obj = self.qp.hist(*a, **k)
        return n, edges


# =====================================================================================================
# the property-level oracle: direct recomputation from the user's inputs (independent of the Coq model)
# =====================================================================================================
_SC = 1.0        # scale of the data of the case being checked: absolute tolerances are relative to it


def close(a, b, tol=TOL, atol=ATOL, sc=None):
    return abs(a - b) <= tol * (abs(a) + abs(b)) + atol * (_SC if sc is None else sc)


def lclose(a, b, sc=None):
    return len(a) == len(b) and all(close(x, y, sc=sc) for x, y in zip(a, b))


def maxabs(l):
    return max([abs(float(v)) for v in l] + [0.0])


def err_list(e, n):
    if e is None:
        return [0.0] * n
    if isinstance(e, (int, float)):
        return [float(e)] * n
    return [float(v) for v in e]


def exp_linspace(lo, hi, n=100):
    lo, hi = Fraction(lo), Fraction(hi)
    return [lo + i * (hi - lo) / (n - 1) for i in range(n)]


def rule_edges(spec):
    """bins given as a string rule: the bin edges are numpy's choice (trusted estimator, asked directly)"""
    import numpy as np
    kw = {"range": tuple(spec["range"])} if spec["range"] is not None else {}
    return [Fraction(float(e)) for e in np.histogram_bin_edges(np.asarray(spec["samples"], dtype=float), bins=spec["bins"], **kw)]


def exp_hist_raw(spec):
    """(weighted) bin contents by numpy's rule, in exact arithmetic: equal-width bins over the range (or min..max) for an
    integer, the given edges for a sequence; bin i is [e_i, e_i+1), the last bin closed; a sample counts with its weight"""
    s = [Fraction(v) for v in spec["samples"]]
    w = [Fraction(v) for v in spec["weights"]] if spec.get("weights") is not None else [Fraction(1)] * len(s)
    if isinstance(spec["bins"], list):
        edges = [Fraction(e) for e in spec["bins"]]
    elif isinstance(spec["bins"], str):
        edges = rule_edges(spec)
    else:
        k = spec["bins"] if spec["bins"] is not None else 10
        lo, hi = (Fraction(spec["range"][0]), Fraction(spec["range"][1])) if spec["range"] is not None else (min(s), max(s))
        if lo == hi:
            lo, hi = lo - Fraction(1, 2), hi + Fraction(1, 2)
        edges = [lo + i * (hi - lo) / k for i in range(k + 1)]
    raw = []
    for i in range(len(edges) - 1):
        a, b = edges[i], edges[i + 1]
        last = i == len(edges) - 2
        raw.append(sum((wt for v, wt in zip(s, w) if a <= v and (v <= b if last else v < b)), Fraction(0)))
    return raw, edges


def exp_hist(spec):
    """(values returned to the caller, edges, bar heights): densities = content / (total * width) when density is on;
    cumulative bars are running sums of the contents (of density * width for densities)"""
    raw, edges = exp_hist_raw(spec)
    widths = [edges[i + 1] - edges[i] for i in range(len(raw))]
    if spec.get("density"):
        total = sum(raw)
        ret = [r / wd / total for r, wd in zip(raw, widths)]
    else:
        ret = list(raw)
    heights = list(ret)
    if spec.get("cumulative"):
        acc, heights = Fraction(0), []
        for v, wd in zip(ret, widths):
            acc += v * wd if spec.get("density") else v
            heights.append(acc)
    return ret, edges, heights


def target_of(specs, i, aux):
    """data (x, y, xerr, yerr) of the fit at position i"""
    spec = specs[i]
    if spec["kind"] == "fit":
        d = spec["data"]
        n = len(d["x"])
        return [float(v) for v in d["x"]], [float(v) for v in d["y"]], err_list(d["xerr"], n), err_list(d["yerr"], n), \
            spec["xrange"], d
    # Plot.fit: the last data set or histogram added before
    for j in range(i - 1, -1, -1):
        t = specs[j]
        if t["kind"] == "data":
            n = len(t["x"])
            return [float(v) for v in t["x"]], [float(v) for v in t["y"]], err_list(t["xerr"], n), err_list(t["yerr"], n), \
                spec.get("xrange"), t
        if t["kind"] == "hist":
            counts, edges, _ = exp_hist(t)
            xs = [float((edges[k] + edges[k + 1]) / 2) for k in range(len(counts))]
            return xs, [float(c) for c in counts], [0.0] * len(xs), [0.0] * len(xs), spec.get("xrange"), None
    return None


def obj_range(specs, i, aux):
    """the x-range an object contributes to the plot's domain (None: none)"""
    s = specs[i]
    if s["kind"] == "data":
        return tuple(s["xrange"]) if s["xrange"] is not None else (min(s["x"]), max(s["x"]))
    if s["kind"] == "func":
        return tuple(s["xrange"]) if isinstance(s["xrange"], list) else None
    if s["kind"] in ("fit", "plotfit"):
        t = target_of(specs, i, aux)
        if t[4] is not None:
            return tuple(t[4])
        return (min(t[0]), max(t[0]))
    _, edges, _ = exp_hist(s)
    return (edges[0], edges[-1])


def hist_kw_text(s):
    return ", ".join("{}={}".format(k, s[k]) for k in ("bins", "range", "density", "weights", "cumulative") if s.get(k) is not None)


def exp_label(name, unit):
    return name + ("[" + unit + "]" if unit else "")


def oracle(script, order, run):
    """None, or a description of the first thing drawn that is not the data"""
    global _SC
    obs, aux = run["obs"], run["aux"]
    st = script["settings"]
    specs = [effective(script["objects"][i]) for i in order]
    _SC = float(script.get("scale", 1.0))
    if obs["status"] == "add-error":
        return None                      # not a rendering question (the generator avoids these)
    if obs["status"] == "structure":
        return "artists: " + obs["error"]
    # what Plot.hist returned
    hs = [s for s in specs if s["kind"] == "hist"]
    for s, (n, edges) in zip(hs, obs["returned"]):
        ret, e, _ = exp_hist(s)
        if not lclose(n, [float(v) for v in ret], sc=maxabs(ret)) or not lclose(edges, [float(v) for v in e]):
            return "hist({}) returned {} edges {}, the samples give {} edges {}".format(
                hist_kw_text(s), n, edges, [float(v) for v in ret], [float(v) for v in e])
        lo, hi = e[0], e[-1]
        wts = s["weights"] if s.get("weights") is not None else [1.0] * len(s["samples"])
        inside = sum(Fraction(w) for v, w in zip(s["samples"], wts) if lo <= Fraction(v) <= hi)
        if not s.get("density") and not close(sum(n), float(inside), sc=max(1.0, float(inside))):
            return "hist({}) returned contents summing to {} but the (weighted) number of samples within [{}, {}] is {}".format(
                hist_kw_text(s), sum(n), float(lo), float(hi), float(inside))
        if s.get("density") and not close(sum(v * float(e[k + 1] - e[k]) for k, v in enumerate(n)), 1.0, 1e-9, 1e-9, sc=1.0):
            return "hist({}) returned densities {} that do not integrate to 1".format(hist_kw_text(s), n)
    # can the plot be rendered at all?
    ranges = [obj_range(specs, i, aux) for i in range(len(specs))]
    have = [r for r in ranges if r is not None]
    if st["xrange"] is None and not have:
        return None if obs["status"] == "no-domain" else \
            "no object has an x-range, yet rendering gave status {} ({})".format(obs["status"], obs.get("error"))
    dom = tuple(st["xrange"]) if st["xrange"] is not None else (min(r[0] for r in have), max(r[1] for r in have))
    if any(s["kind"] == "func" and s["xrange"] == "empty" for s in specs):
        return None if obs["status"] == "no-function-domain" else \
            "a function with an empty x-range cannot be drawn, yet rendering gave status {}".format(obs["status"])
    if obs["status"] != "ok":
        return "rendering failed: " + str(obs.get("error"))
    eb = st["error_bars"]
    figs = [obs] + ([obs["first_render"]] if obs.get("first_render") else [])
    for fig in figs:
        for i, (s, o, a) in enumerate(zip(specs, fig["objects"], aux)):
            where = "object {} ({})".format(i, s["kind"])
            if s["kind"] == "data":
                n = len(s["x"])
                why = check_points(where, o, s["x"], s["y"], err_list(s["xerr"], n), err_list(s["yerr"], n), s["xrange"], eb)
                if why:
                    return why
            elif s["kind"] == "func":
                lo, hi = tuple(s["xrange"]) if isinstance(s["xrange"], list) else dom
                xs = exp_linspace(lo, hi)
                if not lclose(o["x"], [float(x) for x in xs]):
                    return "{}: drawn over {} points from {} to {}, expected 100 evenly spaced points from {} to {}".format(
                        where, len(o["x"]), o["x"][0] if o["x"] else None, o["x"][-1] if o["x"] else None, float(lo), float(hi))
                cv, ce = func_coeffs(s)
                ys = [poly_eval(cv, x) for x in xs]
                es = [abs(poly_eval(ce, x)) for x in xs]
                for k in range(100):
                    if not close(o["y"][k], float(ys[k])):
                        return "{}: at x={} the curve is at {} but f(x)={}".format(where, o["x"][k], o["y"][k], float(ys[k]))
                if eb:
                    for k in range(100):
                        if not (close(o["lower"][k], float(ys[k] - es[k])) and close(o["upper"][k], float(ys[k] + es[k]))):
                            return "{}: at x={} the band is [{}, {}] but f(x) -/+ its uncertainty is [{}, {}]".format(
                                where, o["x"][k], o["lower"][k], o["upper"][k], float(ys[k] - es[k]), float(ys[k] + es[k]))
                elif "lower" in o:
                    return where + ": a band is drawn although error bars are switched off"
            elif s["kind"] in ("fit", "plotfit"):
                tx, ty, txe, tye, xr, _ = target_of(specs, i, aux)
                lo, hi = tuple(xr) if xr is not None else (min(tx), max(tx))
                xs = exp_linspace(lo, hi)
                if not lclose(o["x"], [float(x) for x in xs]):
                    return "{}: fit curve drawn from {} to {} ({} points), expected 100 points from {} to {}".format(
                        where, o["x"][0] if o["x"] else None, o["x"][-1] if o["x"] else None, len(o["x"]), float(lo), float(hi))
                ref = a["fitfn_at_curve"]
                why = restricted_fit_check(where, s, tx, ty, tye, lo, hi, xr, o["x"], ref)
                if why:
                    return why
                for k in range(100):
                    if eb:
                        sigma = (o["upper"][k] - o["lower"][k]) / 2
                        if sigma < 0 or not close((o["upper"][k] + o["lower"][k]) / 2, o["y"][k], 1e-9, 1e-9):
                            return "{}: at x={} the band [{}, {}] is not centred on the curve {}".format(
                                where, o["x"][k], o["lower"][k], o["upper"][k], o["y"][k])
                        tol = 6 * sigma / 100 + 1e-9 * (abs(ref[k]) + _SC)
                    else:   # no band drawn: the first-order uncertainty of fit_function stands in for the Monte Carlo sigma
                        tol = 6 * 1.1 * a["fitfn_err_at_curve"][k] / 100 + 1e-9 * (abs(ref[k]) + _SC)
                    if abs(o["y"][k] - ref[k]) > tol:
                        return "{}: at x={} the fit curve is at {} but fit_function gives {} (allowed {:.3g}: 6 sigma of the " \
                               "sampling error)".format(where, o["x"][k], o["y"][k], ref[k], tol)
                if st["residuals"]:
                    if o["res"] is None:
                        return where + ": no residuals drawn although the residual panel is on"
                    res = [y - f for y, f in zip(ty, a["fitfn_at_data"])]
                    why = check_points(where + " residuals", o["res"], tx, res, txe, a["residual_errors"], None, eb)
                    if why:
                        return why
                    if not lclose(res, a["residuals"]):
                        return where + ": XYFitResult.residuals {} are not y - fit_function(x) = {}".format(a["residuals"], res)
                elif o["res"] is not None:
                    return where + ": residuals drawn although the residual panel is off"
            else:
                ret, edges, heights = exp_hist(s)
                bars = [[float(edges[k]), float(edges[k + 1] - edges[k]), float(heights[k])] for k in range(len(heights))]
                hs_ = maxabs(heights)
                if len(bars) != len(o["bars"]) or not all(lclose(b[:2], c[:2]) and close(b[2], c[2], sc=hs_)
                                                          for b, c in zip(bars, o["bars"])):
                    return "{}: hist({}): bars (left, width, height) {} but the samples give {}".format(
                        where, hist_kw_text(s), o["bars"], bars)
                # (a) against the values that were returned to the caller
                n_ret = obs["returned"][sum(1 for t in specs[:i] if t["kind"] == "hist")][0]
                drawn = [b[2] for b in o["bars"]]
                if s.get("cumulative"):
                    acc, want = 0.0, []
                    for k, v in enumerate(n_ret):
                        acc += v * (o["bars"][k][1]) if s.get("density") else v
                        want.append(acc)
                else:
                    want = n_ret
                if not (len(drawn) == len(want) and all(close(a_, b_, 1e-9, 1e-9, sc=maxabs(want)) for a_, b_ in zip(drawn, want))):
                    return "{}: hist({}): bar heights {} are not the values returned to the caller {}{}".format(
                        where, hist_kw_text(s), drawn, n_ret, " (accumulated)" if s.get("cumulative") else "")
        # labels
        xy = []
        for s, a in zip(specs, aux):
            if s["kind"] == "data":
                xy.append((s["xname"], s["yname"], a["units"][0], a["units"][1]))
            elif s["kind"] == "func":
                xy.append((s["xname"], s["yname"], s["xunit"], s["yunit"]))

        def pick(k, override):
            return override if override else next((t[k] for t in xy if t[k]), "")
        xl = exp_label(pick(0, st["xname"]), pick(2, st["xunit"]))
        yl = exp_label(pick(1, st["yname"]), pick(3, st["yunit"]))
        if fig["xlabel"] != xl:
            return "x label {!r}, expected {!r}".format(fig["xlabel"], xl)
        if fig["ylabel"] != yl:
            return "y label {!r}, expected {!r}".format(fig["ylabel"], yl)
        if fig["title"] != st["title"]:
            return "title {!r}, expected {!r}".format(fig["title"], st["title"])
        if st["residuals"] and (fig["res_xlabel"] != xl or fig["res_ylabel"] != "residuals"):
            return "residual panel labels {!r} / {!r}, expected {!r} / 'residuals'".format(
                fig["res_xlabel"], fig["res_ylabel"], xl)
        # legend
        if st["legend"]:
            labs = []
            for i, s in enumerate(specs):
                if s["kind"] == "data":
                    lab = s["label"] if s["label"] is not None else (s["name"] if s["name"] else "XY Dataset")
                else:
                    lab = s["label"] or ""
                labs.append((s["kind"] == "data" and eb, lab))
            want = [l for c, l in labs if not c] + [l for c, l in labs if c]
            want = [l for l in want if l and not l.startswith("_")]
            if fig["legend"] != want:
                return "legend {!r}, expected {!r}".format(fig["legend"], want)
        elif fig["legend"] is not None:
            return "a legend is drawn although it is switched off"
    return None


def restricted_fit_check(where, s, tx, ty, tye, lo, hi, xr, curve_x, ref):
    """polynomial-type models: the fit function on the plot is the least-squares polynomial of the points with
    low <= x < high (all points when no range was given), recomputed here with numpy.polyfit"""
    import numpy as np
    deg = {"linear": 1, "quadratic": 2, "polynomial": s.get("degrees", 3)}.get(s["model"])
    if deg is None:
        return None
    idx = [k for k in range(len(tx)) if xr is None or (xr[0] <= tx[k] < xr[1])]
    if len(idx) <= deg + 1:
        return None
    w = None
    if any(tye[k] > 0 for k in idx):
        if any(tye[k] <= 0 for k in idx):
            return None
        w = [1 / tye[k] for k in idx]
    with warnings.catch_warnings():
        warnings.simplefilter("ignore")
        coef = np.polyfit([tx[k] for k in idx], [ty[k] for k in idx], deg, w=w)
    mine = np.polyval(coef, np.asarray(curve_x, dtype=float))
    big = max(maxabs(mine), maxabs(ty))
    for k in range(len(curve_x)):
        if abs(mine[k] - ref[k]) > 1e-6 * big + 1e-9 * _SC:
            return "{}: fit_function({}) = {} but the least-squares {} of the {} points{} gives {}".format(
                where, curve_x[k], ref[k], s["model"], len(idx),
                " with {} <= x < {}".format(xr[0], xr[1]) if xr is not None else "", float(mine[k]))
    return None


def check_points(where, o, xs, ys, xes, yes, xr, eb):
    idx = [k for k in range(len(xs)) if xr is None or (xr[0] <= xs[k] and xs[k] < xr[1])]
    ex, ey = [float(xs[k]) for k in idx], [float(ys[k]) for k in idx]
    if not (lclose(o["x"], ex) and lclose(o["y"], ey)):
        return "{}: points drawn at x={} y={}, the data{} are x={} y={}".format(
            where, o["x"], o["y"], " with {} <= x < {}".format(xr[0], xr[1]) if xr is not None else "", ex, ey)
    if eb:
        xb = [[xs[k] - xes[k], ys[k], xs[k] + xes[k], ys[k]] for k in idx]
        yb = [[xs[k], ys[k] - yes[k], xs[k], ys[k] + yes[k]] for k in idx]
        if len(xb) != len(o["xbars"]) or not all(lclose(p, r) for p, r in zip(xb, o["xbars"])):
            return "{}: x error bars {} but x -/+ xerr gives {}".format(where, o["xbars"], xb)
        if len(yb) != len(o["ybars"]) or not all(lclose(p, r) for p, r in zip(yb, o["ybars"])):
            return "{}: y error bars {} but y -/+ yerr gives {}".format(where, o["ybars"], yb)
    elif "xbars" in o:
        return where + ": error bars drawn although they are switched off"
    return None


def check_script(script, order=None):
    order = list(range(len(script["objects"]))) if order is None else order
    run = execute(script, order)
    return oracle(script, order, run)


def same_drawing(a, b, loose=False):
    """equality of two per-object observations up to double rounding.  The propagated uncertainties of residuals
    (key res_ybars) are sums of large, strongly anti-correlated terms over a SET of source measurements whose iteration
    order differs between runs: they are reproducible only to ~1e-6 relative, and are compared at that level"""
    if isinstance(a, dict) and isinstance(b, dict):
        return a.keys() == b.keys() and all(same_drawing(a[k], b[k], loose or k == "res_ybars") for k in a)
    if isinstance(a, list) and isinstance(b, list):
        return len(a) == len(b) and all(same_drawing(x, y, loose) for x, y in zip(a, b))
    if isinstance(a, float) and isinstance(b, float):
        return close(a, b, 1e-6, 1e-8) if loose else close(a, b)
    return a == b


def per_object(order, objects):
    per = {}
    for i, o in zip(order, objects):
        o = dict(o)
        if o["kind"] == "fit":          # the Monte Carlo curve is only statistically reproducible
            for k in ("y", "lower", "upper"):
                o.pop(k, None)
            if o.get("res") and "ybars" in o["res"]:
                o["res"] = dict(o["res"])
                o["res_ybars"] = o["res"].pop("ybars")
        per[i] = o
    return per


def check_orders(script):
    """the data drawn for an object must not depend on the order of adding (fit curves: only statistically)"""
    n = len(script["objects"])
    base = None
    for order in itertools.permutations(range(n)):
        order = list(order)
        run = execute(script, order)
        why = oracle(script, order, run)
        if why:
            return order, why
        if run["obs"]["status"] != "ok":
            continue
        per = per_object(order, run["obs"]["objects"])
        if base is None:
            base = (order, per)
        elif not same_drawing(per, base[1]):
            bad = [i for i in per if not same_drawing(per[i], base[1][i])]
            return order, "object {} is drawn differently when the objects are added in order {} than in order {}".format(
                bad[0], order, base[0])
    return None



# =====================================================================================================
# multi-plot sessions: several Plot objects alive at once, interleaved calls, every render checked
# against the state of THAT plot alone (tracked from the calls made on it, never read back from the object)
# =====================================================================================================
DEFAULT_SWITCHES = {"error_bars": True, "residuals": False, "legend": False}


def gen_session(rng):
    k = rng.choice([1, 2, 2, 3])
    plots, seqs = [], []
    for _ in range(k):
        sc = gen_script(rng, rng.choice(["mixed", "mixed", "fit", "labels", "hist"]))
        objs = sc["objects"][:3]
        if any(o["kind"] == "plotfit" for o in objs) and not any(o["kind"] in ("data", "hist") for o in objs):
            objs = [o for o in objs if o["kind"] != "plotfit"]
        for o in objs:
            if o["kind"] == "func" and o["xrange"] == "empty":
                o["xrange"] = None
        st = sc["settings"]
        if rng.random() < 0.45:        # a plot that never touches its switches: everything must stay at the defaults
            st = dict(st, **DEFAULT_SWITCHES)
        for o in objs:                 # the data set is also changed through its public attributes after it was added
            if o.get("mutate") and rng.random() < 0.5:
                o["mutate_late"] = True
        plots.append({"objects": objs, "entry": st["entry"], "scale": sc.get("scale", 1.0),
                      "render_via": st.get("render_via", "savefig")})
        ops = [["add", j] for j in range(len(objs))]
        for name in st.get("bad_calls", []):
            ops.insert(rng.randint(1 if ops else 0, len(ops)), ["bad", name])
        extra = []
        for name, dflt in DEFAULT_SWITCHES.items():
            if st[name] != dflt or rng.random() < 0.1:
                extra.append(["switch", name, st[name]])
        for key in ("title", "xname", "yname", "xunit", "yunit"):
            if st[key]:
                extra.append(["info", key, st[key]])
        if st["xrange"] is not None:
            extra.append(["xrange", st["xrange"]])
        for e in extra:                # settings calls at arbitrary positions (after the plot exists)
            ops.insert(rng.randint(1 if ops else 0, len(ops)), e)
        if len(objs) >= 2 and rng.random() < 0.3:
            ops.insert(rng.randint(1, len(ops)), ["render"])
        for j, o in enumerate(objs):
            if o.get("mutate_late"):
                at = ops.index(["add", j])
                ops.insert(rng.randint(at + 1, len(ops)), ["mutate", j])
        ops.append(["render"])
        # switches TOGGLED between two renderings of the same Plot object: the next rendering must show the new state
        # (residual panel present / absent with the fit's residuals, error bars, legend), not a figure set up earlier
        cur = dict(DEFAULT_SWITCHES)
        for op in ops:
            if op[0] == "switch":
                cur[op[1]] = op[2]
        has_fit = any(o["kind"] in ("fit", "plotfit") for o in objs)
        for _ in range(rng.choice([0, 1, 1, 2])):
            names = ["residuals"] if (has_fit or rng.random() < 0.4) and rng.random() < 0.8 else []
            names += [n for n in rng.sample(["error_bars", "legend", "residuals"], rng.randint(0, 2)) if n not in names]
            if not names:
                names = ["residuals"]
            for name in names:
                cur[name] = not cur[name]
                ops.append(["switch", name, cur[name]])
            ops.append(["render"])
        seqs.append(ops)
    if k >= 2 and rng.random() < 0.35:  # the SAME XYDataSet object drawn on two plots (with different x-ranges)
        src = [(i, o) for i in range(k) for o in plots[i]["objects"] if o["kind"] == "data" and o["form"] == "dataset"
               and not o.get("mutate")]
        if src:
            i, o = rng.choice(src)
            j = rng.choice([t for t in range(k) if t != i])
            if plots[j]["scale"] == plots[i]["scale"]:
                o["shared"] = "s0"
                twin = dict(o, xrange=gen_range_for(rng, [x / plots[i]["scale"] for x in o["x"]]) if rng.random() < 0.6 else None,
                            label=rng.choice(LABELS))
                if twin["xrange"] is not None:
                    twin["xrange"] = [v * plots[i]["scale"] for v in twin["xrange"]]
                plots[j]["objects"].append(twin)
                seqs[j].insert(len(seqs[j]) - 1, ["add", len(plots[j]["objects"]) - 1])
    steps, pos = [], [0] * k
    while any(pos[i] < len(seqs[i]) for i in range(k)):
        i = rng.choice([j for j in range(k) if pos[j] < len(seqs[j])])
        steps.append([i] + seqs[i][pos[i]])
        pos[i] += 1
    for i in range(k):                 # render everything once more after all the calls on the other plots
        if rng.random() < 0.7:
            steps.append([i, "render"])
    return {"seed": rng.randrange(2 ** 31), "plots": plots, "steps": steps, "kind": "session"}


def execute_session(sess):
    """returns {"status": "ok"|"add-error", "renders": [{"plot": i, "step": n, "script": <the plot's own state as a
    single-plot script>, "order": [...], "run": {"obs", "aux"}}]}"""
    import numpy as np
    import matplotlib.pyplot as plt
    import qexpy.plotting.plotting as P
    import qexpy.plotting as qp
    warnings.simplefilter("ignore")
    reset_impl()
    np.random.seed(sess["seed"])
    k = len(sess["plots"])
    plots, handles, specs, returned = [None] * k, [[] for _ in range(k)], [[] for _ in range(k)], [[] for _ in range(k)]
    tracked = [dict(DEFAULT_SWITCHES, xrange=None, title="", xname="", yname="", xunit="", yunit="", entry="class",
                    renders=1, settings_first=True, render_via=sess["plots"][i].get("render_via", "savefig"))
               for i in range(k)]
    shared = {}
    out = []
    try:
        for n, step in enumerate(sess["steps"]):
            i, op = step[0], step[1]
            if plots[i] is None and not (op == "add" and sess["plots"][i]["entry"] == "module"
                                         and sess["plots"][i]["objects"][step[2]]["kind"] != "plotfit"):
                plots[i] = P.Plot()
            if op == "add":
                spec = sess["plots"][i]["objects"][step[2]]
                if spec.get("mutate_late"):
                    spec = dict(spec, mutate=None, mutate_late=step[2])
                if plots[i] is None:
                    shim = _FirstCall(qp, spec)
                    h = add_object(shim, spec, handles[i], shared)
                    plots[i] = shim.plot_obj
                else:
                    h = add_object(plots[i], spec, handles[i], shared)
                handles[i].append(h)
                specs[i].append(spec)
                if "returned" in h:
                    returned[i].append(h["returned"])
            elif op == "mutate":
                full = sess["plots"][i]["objects"][step[2]]
                at = [t for t, sp in enumerate(specs[i]) if sp.get("mutate_late") == step[2] and sp.get("mutate") is None
                      and sp["kind"] == "data"]
                if at:
                    mutate_dataset(handles[i][at[0]]["dataset"], full["mutate"])
                    specs[i][at[0]] = dict(full, mutate_late=None)
            elif op == "bad":
                bad_call(plots[i], step[2])
            elif op == "switch":
                getattr(plots[i], step[2])(step[3])
                tracked[i][step[2]] = step[3]
            elif op == "info":
                setattr(plots[i], step[2], step[3])
                tracked[i][step[2]] = step[3]
            elif op == "xrange":
                plots[i].xrange = tuple(step[2])
                tracked[i]["xrange"] = list(step[2])
            elif op == "render":
                obs = {"status": "ok", "returned": list(returned[i])}
                st = dict(tracked[i])
                aux = observe_plot(plots[i], list(specs[i]), st, handles[i], obs)
                # the figures stay open until the session ends (a later rendering of the same plot must not depend on
                # whether the earlier figure still exists)
                out.append({"plot": i, "step": n, "script": {"seed": sess["seed"], "objects": list(specs[i]), "settings": st,
                                                             "kind": "session", "scale": sess["plots"][i].get("scale", 1.0)},
                            "order": list(range(len(specs[i]))), "run": {"obs": obs, "aux": aux}})
    except Exception as e:  # noqa
        plt.close("all")
        reset_impl()
        return {"status": "add-error", "error": "{}: {}".format(type(e).__name__, str(e)[:200]), "renders": []}
    plt.close("all")
    reset_impl()
    return {"status": "ok", "renders": out}


def check_session(sess, result=None):
    result = result or execute_session(sess)
    for r in result["renders"]:
        why = oracle(r["script"], r["order"], r["run"])
        if why:
            calls = [st[1:] for st in sess["steps"][:r["step"]] if st[0] == r["plot"] and st[1] != "add"]
            return "plot {} of {} alive (rendered at step {}; calls made on it: {}): {}".format(
                r["plot"], len(sess["plots"]), r["step"], calls if calls else "none but plot/hist/fit", why)
    return None


def shrink_session(sess):
    def bad(steps):
        return bool(steps) and check_session(dict(sess, steps=steps)) is not None
    steps = core.shrink_list(list(sess["steps"]), lambda c: safe(bad, c))
    return dict(sess, steps=steps)


def safe(f, x):
    try:
        return f(x)
    except Exception:  # noqa
        return False

# =====================================================================================================
# shrinking and replay
# =====================================================================================================
def fails(case):
    try:
        if case.get("session"):
            return check_session(case["session"]) is not None
        if case.get("all_orders"):
            return check_orders(case["script"]) is not None
        return check_script(case["script"], case.get("order")) is not None
    except Exception:  # noqa
        return False


def shrink_case(case):
    if case.get("session"):
        return {"session": shrink_session(case["session"])}
    script = json.loads(json.dumps(case["script"]))
    order = case.get("order") or list(range(len(script["objects"])))
    all_orders = bool(case.get("all_orders"))

    def mk(objs, st=None):
        s = dict(script, objects=objs, settings=st or script["settings"])
        return {"script": s, "order": None, "all_orders": all_orders}
    objs = [script["objects"][i] for i in order] if not all_orders else list(script["objects"])
    # 1 drop objects
    objs = core.shrink_list(objs, lambda cand: bool(cand) and fails(mk(cand)))
    # 2 simplify settings
    st = dict(script["settings"])
    for k, v in (("legend", False), ("residuals", False), ("renders", 1), ("entry", "class"), ("title", ""),
                 ("xname", ""), ("yname", ""), ("xunit", ""), ("yunit", ""), ("xrange", None), ("settings_first", True),
                 ("early_render", None)):
        if st.get(k) != v:
            cand = dict(st, **{k: v})
            if fails(mk(objs, cand)):
                st = cand
    # 3 fewer data points / samples
    for i, o in enumerate(objs):
        if o["kind"] == "data" and len(o["x"]) > 1:
            idx = core.shrink_list(list(range(len(o["x"]))), lambda keep: bool(keep) and fails(
                mk(objs[:i] + [cut_data(o, keep)] + objs[i + 1:], st)))
            objs[i] = cut_data(o, idx)
        if o["kind"] == "hist" and len(o["samples"]) > 1:
            def cut_hist(idx, o=o):
                return dict(o, samples=[o["samples"][k] for k in idx],
                            weights=[o["weights"][k] for k in idx] if o.get("weights") is not None else None)
            keep = core.shrink_list(list(range(len(o["samples"]))), lambda idx: bool(idx) and fails(
                mk(objs[:i] + [cut_hist(idx)] + objs[i + 1:], st)))
            objs[i] = cut_hist(keep)
    return mk(objs, st)


def cut_data(o, keep):
    d = dict(o, x=[o["x"][k] for k in keep], y=[o["y"][k] for k in keep])
    for e in ("xerr", "yerr"):
        if isinstance(o[e], list):
            d[e] = [o[e][k] for k in keep]
    return d


def describe(case):
    try:
        if case.get("session"):
            return check_session(case["session"])
        if case.get("all_orders"):
            r = check_orders(case["script"])
            return None if r is None else "adding in order {}: {}".format(r[0], r[1])
        return check_script(case["script"], case.get("order"))
    except Exception as e:  # noqa
        return "harness error {}: {}".format(type(e).__name__, e)


def replay(ctx, v):
    core.setup_impl()
    why = describe(v["case"])
    return Violation(ID, v["kind"], v["case"], why, key=v.get("key")) if why else None


def load_corpus():
    d = os.path.join(core.VERIF, "corpus", ID)
    out = []
    if os.path.isdir(d):
        for f in sorted(os.listdir(d)):
            if f.endswith(".json"):
                out.append(json.load(open(os.path.join(d, f))))
    return out


def probe_cases():
    """a fixed handful of sharp inputs that the oracle always tries (they run even when the models do not build):
    x-range masks on data of size 1e-12 and 1e9 with bounds on and between the data values"""
    out = []
    st = {"error_bars": True, "residuals": False, "legend": False, "xrange": None, "title": "", "xname": "",
          "yname": "", "xunit": "", "yunit": "", "entry": "class", "renders": 1, "settings_first": True}
    for S in (2.0 ** -40, 2.0 ** 30):
        for lo, hi in ((0.0, 1.0), (1.0, 2.0), (0.0, 2.0), (0.5, 2.5)):
            d = {"kind": "data", "x": [0.0, 1.0, 2.0, 1.0], "y": [1.5, -2.0, 3.25, 0.5], "xerr": [0.25, 0.0, 0.5, 0.125],
                 "yerr": [0.5, 0.25, 2.0 ** -30, 1.0], "name": None, "form": "arrays", "xrange": [lo, hi], "label": None,
                 "fmt": None, "xname": "", "yname": "", "xunit": "", "yunit": ""}
            sc = {"seed": 1, "objects": [d], "settings": dict(st), "kind": "probe"}
            apply_scale(sc, S)
            out.append({"script": sc, "order": None, "all_orders": False})
    return out


def search(ctx, suspects, budget):
    t0 = time.time()
    rng = ctx.rng
    out, n, seen = [], 0, set()
    # the corpus always runs; an entry with a "key" is a recorded finding: it is reported under that stable key
    # (so that known_findings.json can list it), exactly as recorded (not shrunk), and only while it still fails
    for c in load_corpus():
        n += 1
        why = describe(c["case"])
        if why and not why.startswith("harness error"):
            v = Violation(ID, c.get("kind", "script"), c["case"], why, key=c.get("key"))
            if v.key not in seen:
                seen.add(v.key)
                out.append(v)
    n_known = len(out)
    todo = [s["case"] for s in suspects if s.get("case")] + probe_cases()
    while len(out) - n_known < 3:
        if todo:
            case = todo.pop(0)
        elif time.time() - t0 > budget:
            break
        else:
            r = rng.random()
            if r < 0.2:
                case = {"script": gen_order_set(rng, rng.choice([2, 2, 3])), "order": None, "all_orders": True}
            elif r < 0.45:
                case = {"session": gen_session(rng)}
            else:
                case = {"script": gen_script(rng, "malformed" if r < 0.27 else None), "order": None, "all_orders": False}
        n += 1
        why = describe(case)
        if why and not why.startswith("harness error"):
            small = shrink_case(case)
            why2 = describe(small)
            if why2 is None:
                small, why2 = case, why
            v = Violation(ID, "session" if small.get("session") else ("orders" if small.get("all_orders") else "script"),
                          small, why2)
            if v.key not in seen:
                seen.add(v.key)
                out.append(v)
        elif why:
            ctx.notes.append("oracle: " + why[:200])
    ctx.notes.append("oracle: {} plot scripts recomputed from their inputs in {:.1f}s".format(n, time.time() - t0))
    return out


# =====================================================================================================
# Coq encoding and the correspondence
# =====================================================================================================
HEADER = coq.HEADER + "From QV Require Import Base.CaseLib Model.PlotBase Gen.PlotGen Model.Plot Model.PlotCases.\n" \
                      "Open Scope Q_scope.\n"
INTERN = None


def I(term):
    return INTERN(term) if INTERN else term


def fq(x):
    """a float (or Fraction with a power-of-two denominator) as  fl mantissa exponent  -- one big numeral instead of two"""
    fr = Fraction(x)
    n, d = fr.numerator, fr.denominator
    if d & (d - 1):
        return qlit(fr)
    e = -(d.bit_length() - 1)
    while n and n % 2 == 0:
        n //= 2
        e += 1
    if n == 0:
        return "0"
    return "(fl {} {})".format(n if n >= 0 else "({})".format(n), e if e >= 0 else "({})".format(e))


def ql(xs):
    return I(coq_list([fq(x) for x in xs]))


def txt(s):
    return "(" + "".join("{}%N :: ".format(ord(c)) for c in s) + "@nil N)"


def crange(r):
    return coq_option(r, lambda v: "({}, {})".format(fq(v[0]), fq(v[1])))


def cdataset(x, y, xe, ye, name, xname, yname, xunit, yunit):
    return I("(mk_dataset {} {} {} {} {} {} {} {} {})".format(
        ql(x), ql(y), ql(xe), ql(ye), txt(name), txt(xname), txt(yname), txt(xunit), txt(yunit)))


def cobj(spec, a, specs, i, aux):
    k = spec["kind"]
    if k == "data":
        n = len(spec["x"])
        ds = cdataset(spec["x"], spec["y"], err_list(spec["xerr"], n), err_list(spec["yerr"], n),
                      spec["name"] if spec["name"] else "XY Dataset", spec["xname"], spec["yname"], a["units"][0], a["units"][1])
        return I("(CData (mk_data_obj {} {} {}))".format(ds, crange(spec["xrange"]), coq_option(spec["label"], txt)))
    if k == "func":
        cv, ce = func_coeffs(spec)
        return I("(CFunc {} {} {} {} {} {} {} {} {})".format(
            coq_list([fq(c) for c in cv]), coq_list([fq(c) for c in ce]),
            coq_bool(spec["xrange"] is not None), crange(spec["xrange"] if isinstance(spec["xrange"], list) else None),
            txt(spec["xname"]), txt(spec["yname"]), txt(spec["xunit"]), txt(spec["yunit"]), txt(spec["label"] or "")))
    if k in ("fit", "plotfit"):
        d = a["ds"]
        ds = cdataset(d["x"], d["y"], d["xerr"], d["yerr"], d["name"], d["xname"], d["yname"], d["xunit"], d["yunit"])
        model = spec["model"]
        if model in ("linear", "quadratic", "polynomial"):
            ref = "(RefPoly {})".format(coq_list([fq(c) for c in reversed(a["params"])]))
        elif model == "custom":
            ref = "(RefPoly {})".format(coq_list([fq(a["params"][1]), "0", fq(a["params"][0])]))
        else:
            ref = "(RefTable {} {})".format(ql(a.get("fitfn_at_curve", [])), coq_list(
                ["({}, {})".format(fq(x), fq(v)) for x, v in zip(d["x"], a["fitfn_at_data"])]))
        return "(CFit {} {} {} {} {} {})".format(ds, crange(a["fit_xrange"]), ref, ql(a["residual_errors"]),
                                                ql([1.1 * e for e in a.get("fitfn_err_at_curve", [])]),
                                                txt(spec["label"] or ""))
    bins = spec["bins"]
    if bins is None:
        cb = "None"
    elif isinstance(bins, list):
        cb = "(Some (BSeq {}))".format(ql(bins))
    elif isinstance(bins, str):
        cb = "(Some (BRule {}))".format(ql(rule_edges(spec)))        # numpy's estimator is an oracle of the model
    else:
        cb = "(Some (BInt {}%nat))".format(bins)
    return I("(CHist (mk_hist_obj {} (mk_hist_kw {} {} {} {} {} {})))".format(
        ql(spec["samples"]), cb, crange(spec["range"]), coq_option(spec["label"], txt), coq_bool(bool(spec.get("density"))),
        coq_option(spec.get("weights"), ql), coq_bool(bool(spec.get("cumulative")))))


def cseg(s):
    return "({}, {}, {}, {})".format(*[fq(v) for v in s])


def cpoints(o, eb):
    bars = "None"
    if eb:
        bars = "(Some ({}, {}))".format(I(coq_list([cseg(s) for s in o["xbars"]])), I(coq_list([cseg(s) for s in o["ybars"]])))
    return "(mk_points {} {} {})".format(ql(o["x"]), ql(o["y"]), bars)


def ccurve(o, eb):
    band = "(Some ({}, {}))".format(ql(o["lower"]), ql(o["upper"])) if eb else "None"
    return "(mk_curve {} {} {})".format(ql(o["x"]), ql(o["y"]), band)


def cdrawn(o, eb):
    k = o["kind"]
    if k == "data":
        return I("(DrData {})".format(cpoints(o, eb)))
    if k == "func":
        return I("(DrFunc {})".format(ccurve(o, eb)))
    if k == "fit":
        return "(DrFit {} {})".format(ccurve(o, eb), coq_option(o["res"], lambda r: cpoints(r, eb)))
    return I("(DrHist {})".format(coq_list(["({}, {}, {})".format(*[fq(v) for v in b]) for b in o["bars"]])))


STATUS = {"ok": "StOk", "no-domain": "StNoDomain", "no-function-domain": "StNoFunctionDomain", "error": "StOther",
          "structure": "StOther"}


def ccase(script, order, run, fig=None):
    obs, aux = run["obs"], run["aux"]
    st = script["settings"]
    specs = [effective(script["objects"][i]) for i in order]
    eb = st["error_bars"]
    cfg = I("(mk_settings {} {} {} {} {} {} {} {} {})".format(
        coq_bool(eb), coq_bool(st["residuals"]), coq_bool(st["legend"]), crange(st["xrange"]), txt(st["title"]),
        txt(st["xname"]), txt(st["yname"]), txt(st["xunit"]), txt(st["yunit"])))
    objs = coq_list([cobj(s, a, specs, i, aux) for i, (s, a) in enumerate(zip(specs, aux))])
    fig = fig or obs
    ok = obs["status"] == "ok"
    ob = "(mk_observation {} {} {} {} {} {} {} {} {})".format(
        STATUS[obs["status"]],
        coq_list([cdrawn(o, eb) for o in fig["objects"]]) if ok else "[]",
        txt(fig["xlabel"]) if ok else "[]", txt(fig["ylabel"]) if ok else "[]", txt(fig["title"]) if ok else "[]",
        coq_option(fig["res_xlabel"], txt) if ok else "None",
        coq_option(fig["legend"], lambda l: coq_list([txt(t) for t in l])) if ok else "None",
        coq_list(["({}, {})".format(ql(n), ql(e)) for n, e in obs["returned"]]),
        fq(float(script.get("scale", 1.0))))
    return "({}, {}, {})".format(cfg, objs, ob)


def diagnose(script, order, run):
    """which conjunct of check_case fails for one case (diagnostics attached to a disagreement)"""
    global INTERN
    saved = INTERN
    INTERN = Interner()
    try:
        term = ccase(script, order, run)
        header = HEADER + INTERN.text() + "Definition the_case := {}.\n".format(term)
    finally:
        INTERN = saved
    ok, out = coq.eval_terms(ID, header, ["(check_parts the_case, objects_parts the_case)"])
    names = ["hist-returned", "status", "objects", "monte-carlo", "xlabel", "ylabel", "title", "residual-xlabel", "legend"]
    import re
    m = re.search(r"=\s*\(\[([^\]]*)\],\s*\[([^\]]*)\]\)", out.replace("\n", " "))
    if not ok or not m:
        return "diagnosis failed: " + out.strip()[-200:]
    parts = [x.strip() for x in m.group(1).split(";") if x.strip()]
    objs = [x.strip() for x in m.group(2).split(";") if x.strip()]
    bad = [n for n, v in zip(names, parts) if v != "true"]
    return "failing parts: {}; objects agree: {}".format(bad, objs)


def _worker(job):
    script, order = job
    try:
        core.setup_impl()
        return execute(script, order)
    except Exception as e:  # noqa
        return {"obs": {"status": "harness-error", "error": "{}: {}".format(type(e).__name__, e)}, "aux": []}


def _session_worker(sess):
    try:
        core.setup_impl()
        return execute_session(sess)
    except Exception as e:  # noqa
        return {"status": "harness-error", "error": "{}: {}".format(type(e).__name__, e), "renders": []}


def run_sessions(sessions, workers=10):
    if len(sessions) < 3:
        return [_session_worker(x) for x in sessions]
    import multiprocessing as mp
    with mp.get_context("fork").Pool(workers) as pool:
        return pool.map(_session_worker, sessions, chunksize=1)


def run_jobs(jobs, workers=10):
    if len(jobs) < 4:
        return [_worker(j) for j in jobs]
    import multiprocessing as mp
    with mp.get_context("fork").Pool(workers) as pool:
        return pool.map(_worker, jobs, chunksize=2)


def nontrivial_key(script, order, run):
    """a case is non-trivial when at least one non-default branch of the pipeline is exercised: an x-range that
    removes a point, a function without its own range, a fit, residuals, a histogram with a range or a sequence"""
    specs = [effective(script["objects"][i]) for i in order]
    tags = set()
    for s0 in (script["objects"][i] for i in order):
        for k in ("mutate", "preread", "shared"):
            if s0.get(k):
                tags.add(k)
        if s0.get("numtype"):
            tags.add("numtype-" + s0["numtype"])
        if s0.get("spelling"):
            tags.add("spelling-" + s0["spelling"])
    if script.get("scale", 1.0) != 1.0:
        tags.add("scale-{:.0e}".format(script["scale"]))
    if script["settings"].get("bad_calls"):
        tags.add("bad-calls")
    if script["settings"].get("render_via", "savefig") != "savefig":
        tags.add("render-" + script["settings"]["render_via"])
    for s in specs:
        if s["kind"] == "data" and s["xrange"] is not None:
            if any(not (s["xrange"][0] <= x < s["xrange"][1]) for x in s["x"]):
                tags.add("mask")
            if any(x == s["xrange"][1] or x == s["xrange"][0] for x in s["x"]):
                tags.add("mask-boundary")
        if s["kind"] == "func":
            tags.add("own-range" if isinstance(s["xrange"], list) else "plot-domain")
        if s["kind"] in ("fit", "plotfit"):
            tags.add("fit")
        if s["kind"] == "hist":
            tags.add("hist-seq" if isinstance(s["bins"], list) else ("hist-range" if s["range"] else "hist"))
            for k in ("density", "weights", "cumulative"):
                if s.get(k):
                    tags.add("hist-" + k)
            if isinstance(s["bins"], str):
                tags.add("hist-rule")
            if isinstance(s["bins"], list) and s.get("density") and len(set(
                    s["bins"][k + 1] - s["bins"][k] for k in range(len(s["bins"]) - 1))) > 1:
                tags.add("hist-density-unequal-widths")
    if run["obs"]["status"] != "ok":
        tags.add(run["obs"]["status"])
    return tags


def correspondence(ctx):
    global INTERN
    res = CorrResult()
    rng = ctx.rng
    n_scripts = ctx.n(44, 420)
    n_malformed = ctx.n(8, 60)
    n_sets = ctx.n(10, 80)
    cases = []          # (script, order, tag)
    for c in load_corpus():
        if c.get("use") == "oracle":      # recorded findings are replayed by the oracle only
            continue
        cases.append((c["case"]["script"], c["case"].get("order") or list(range(len(c["case"]["script"]["objects"]))), "corpus"))
    for _ in range(n_scripts):
        s = gen_script(rng)
        cases.append((s, list(range(len(s["objects"]))), s["kind"]))
    for _ in range(n_malformed):
        s = gen_script(rng, "malformed")
        cases.append((s, list(range(len(s["objects"]))), "malformed"))
    # exhaustive small scope of the x-range mask: every (low, high) on a grid around the data values
    grid = [-0.5, 0.0, 0.5, 1.0, 1.5, 2.0, 2.5]
    n_grid = 0
    for lo in grid:
        for hi in grid:
            if lo <= hi:
                d = {"kind": "data", "x": [0.0, 1.0, 2.0, 1.0], "y": [1.5, -2.0, 3.25, 0.5], "xerr": [0.25, 0.0, 0.5, 0.125],
                     "yerr": [0.5, 0.25, 0.0, 1.0], "name": None, "form": "arrays", "xrange": [lo, hi], "label": None,
                     "fmt": None, "xname": "", "yname": "", "xunit": "", "yunit": ""}
                st = {"error_bars": True, "residuals": False, "legend": False, "xrange": None, "title": "", "xname": "",
                      "yname": "", "xunit": "", "yunit": "", "entry": "class", "renders": 1, "settings_first": True}
                cases.append(({"seed": 1, "objects": [d], "settings": st, "kind": "mask-grid"}, [0], "mask-grid"))
                n_grid += 1
    # exhaustive small scope of the histogram keywords the library forwards: every combination of binning
    # (integer / equal-width sequence / unequal-width sequence / integer with range) x density x weights x cumulative
    hs = [-1.5, -1.0, -1.0, 0.0, 0.25, 0.5, 0.5, 0.5, 1.0, 2.0, 2.5, 4.0]
    hw = [1.0, 0.5, 2.0, 1.0, 0.25, 4.0, 1.0, 0.0, 2.0, 1.0, 0.5, 1.0]
    n_hgrid = 0
    for hb, hr in ((4, None), ([-2.0, 0.0, 2.0, 4.0], None), ([-2.0, -1.0, 0.0, 0.5, 1.0, 4.0], None), (3, [-1.0, 2.0])):
        for dens in (None, True):
            for wts in (None, hw):
                for cum in (None, True):
                    h = {"kind": "hist", "samples": hs, "bins": hb, "range": hr, "label": None, "form": "list",
                         "density": dens, "weights": wts, "cumulative": cum}
                    st = {"error_bars": True, "residuals": False, "legend": False, "xrange": None, "title": "", "xname": "",
                          "yname": "", "xunit": "", "yunit": "", "entry": "class", "renders": 1, "settings_first": True}
                    cases.append(({"seed": 1, "objects": [h], "settings": st, "kind": "hist-grid"}, [0], "hist-grid"))
                    n_hgrid += 1
    sets = []
    for j in range(n_sets):
        k = rng.choice([2, 2, 3, 3] if ctx.quick else [2, 3, 3, 3, 4])
        s = gen_order_set(rng, k)
        perms = [list(p) for p in itertools.permutations(range(k))]
        sets.append((s, perms))
        for p in perms:
            cases.append((s, p, "orders"))
    t0 = time.time()
    runs = run_jobs([(s, o) for s, o, _ in cases])
    # multi-plot sessions: each render of each plot becomes a case of that plot's own state
    sessions = [gen_session(rng) for _ in range(ctx.n(12, 100))]
    sess_of, n_sess_ok, n_sess_renders = {}, 0, 0
    for sess, result in zip(sessions, run_sessions(sessions)):
        res.count("session:" + result["status"])
        if result["status"] == "harness-error":
            res.disagreements.append({"name": "harness error while running a multi-plot session: " + result["error"][:200],
                                      "kind": "session", "case": {"session": sess}})
        if result["status"] != "ok":
            continue
        n_sess_ok += 1
        res.count("session:plots:{}".format(len(sess["plots"])))
        for r in result["renders"]:
            cases.append((r["script"], r["order"], "session"))
            runs.append(r["run"])
            sess_of[id(r["script"])] = sess
            n_sess_renders += 1
    res.extra["multi_plot_sessions"] = "{} sessions of 2-3 plots alive at once, {} renders compared with the state of their " \
                                       "own plot".format(n_sess_ok, n_sess_renders)
    ctx.notes.append("implementation: {} renders in {:.1f}s".format(len(cases), time.time() - t0))
    scripts_seen = set()
    usable = []
    for (s, o, tag), run in zip(cases, runs):
        st = run["obs"]["status"]
        res.count("status:" + st)
        if st in ("add-error", "harness-error"):
            res.count("skipped:" + run["obs"].get("error", "")[:60])
            if st == "harness-error":
                res.disagreements.append({"name": "harness error while running a plot script: " + run["obs"]["error"][:200],
                                          "kind": "script", "case": {"script": s, "order": o, "all_orders": False}})
            continue
        usable.append((s, o, tag, run))
        res.evaluations += 1
        res.count("kind:" + tag)
        for sp in (s["objects"][i] for i in o):
            res.count("object:" + sp["kind"] + (":" + sp["model"] if "model" in sp else ""))
        res.count("objects-per-plot:{}".format(len(o)))
        for sw in ("error_bars", "residuals", "legend"):
            res.count("{}:{}".format(sw, s["settings"][sw]))
        tags = nontrivial_key(s, o, run)
        for t in tags:
            res.count("branch:" + t)
        if tags:
            res.nontrivial.add(core.canonical_key("c", [s["objects"], o, s["settings"]]))
        key = core.canonical_key("s", s)
        if key not in scripts_seen:
            scripts_seen.add(key)
            res.traces += 1
    # order independence, observed on the implementation itself (bitwise, fit curves excepted)
    by_script = {}
    for s, o, tag, run in usable:
        if tag == "orders" and run["obs"]["status"] == "ok":
            by_script.setdefault(core.canonical_key("s", s), []).append((s, o, per_object(o, run["obs"]["objects"])))
    n_perm = 0
    for key, lst in by_script.items():
        base = lst[0]
        for s, o, per in lst[1:]:
            n_perm += 1
            if not same_drawing(per, base[2]):
                res.disagreements.append({"name": "C19_order (drawn_for is invariant under Permutation) vs Plot.plot/savefig",
                                          "kind": "orders", "case": {"script": s, "order": None, "all_orders": True}})
                break
    res.extra["orders_compared_per_object"] = n_perm
    # case files
    shards, index = [], []
    cur, cur_idx, size = [], [], 0
    INTERN = Interner()

    def flush():
        global INTERN
        nonlocal cur, cur_idx, size
        if cur:
            text = HEADER + INTERN.text() + "Definition cases := {}.\nEval vm_compute in (bad_indices check_case cases).\n".format(
                coq_list(cur))
            shards.append(text)
            index.append(cur_idx)
        cur, cur_idx, size = [], [], 0
        INTERN = Interner()
    last_script = None
    for k, (s, o, tag, run) in enumerate(usable):
        skey = id(s)
        if size > 40000 and skey != last_script:
            flush()
        last_script = skey
        before = sum(len(d) for d in INTERN.defs)
        try:
            term = ccase(s, o, run)
        except (ValueError, OverflowError) as e:     # e.g. a NaN among the auxiliary values of a degenerate fit
            res.disagreements.append({"name": "case could not be encoded for the model: {}".format(e), "kind": "script",
                                      "case": {"session": sess_of[id(s)]} if id(s) in sess_of else
                                      {"script": s, "order": o, "all_orders": False}})
            continue
        cur.append(term)
        cur_idx.append(k)
        if run["obs"].get("first_render"):
            cur.append(ccase(s, o, run, run["obs"]["first_render"]))
            cur_idx.append(k)
        size += len(term) + sum(len(d) for d in INTERN.defs) - before
    flush()
    INTERN = None
    t0 = time.time()
    bads, logs = coq.run_case_files(ID, shards, keep=getattr(ctx, "keep_cases", False))
    ctx.notes.append("model: {} case files ({} KB) evaluated in {:.1f}s".format(
        len(shards), sum(len(t) for t in shards) // 1024, time.time() - t0))
    for idx, bad, log in zip(index, bads, logs):
        if bad is None:
            res.disagreements.append({"name": "case file did not evaluate: " + log.strip().split("\n")[-1][:200], "case": None})
            continue
        for i in sorted(set(idx[j] for j in bad[0])):
            s, o, tag, run = usable[i]
            d = {"name": "Model.Plot.savefig vs Plot.savefig (artists on the axes)",
                 "kind": "session" if id(s) in sess_of else "script",
                 "case": {"session": sess_of[id(s)]} if id(s) in sess_of else {"script": s, "order": o, "all_orders": False},
                 "status": run["obs"]["status"], "error": run["obs"].get("error")}
            if len(res.disagreements) < 4:
                d["diagnosis"] = diagnose(s, o, run)
            res.disagreements.append(d)
    res.rule = ("random plot scripts: 1-5 objects (data sets +/- x/y uncertainties (scalar or list), names, units, x-range whose "
                "bounds often coincide with data values; polynomial functions +/- a measured parameter +/- own x-range; fit "
                "results of linear/quadratic/polynomial/exponential/gaussian/custom models made by fit(), XYDataSet.fit() or "
                "Plot.fit() on a data set or a histogram, +/- fit x-range; histograms with default/integer/unequal-width sequence/string-rule bins +/- density, weights, cumulative, +/- "
                "range), error-bar / residual / legend switches, explicit plot x-range, label overrides, one or two renders, "
                "class or module-level entry points; a malformed stream of plots that cannot be rendered (no x-range anywhere, "
                "explicitly empty function range); small object sets added in ALL orders; and multi-plot sessions (2-3 Plot "
                "objects alive at once, interleaved plot/hist/fit, error_bars/residuals/legend, label, x-range and savefig calls, "
                "a plot that keeps the default switches makes no switch call; every render is compared with the model state of "
                "its own plot, tracked from the calls made on it). Each is rendered by savefig on "
                "Agg and the artists are compared with Model.Plot.savefig by vm_compute (exact up to 1e-12; fit curves within "
                "6 sigma of the Monte Carlo sampling error). non-trivial = exercises a mask that removes a point, a function "
                "on the plot domain or its own range, a fit, or a histogram (distinct by content)")
    ok_cases = [c for c in usable if c[3]["obs"]["status"] == "ok"]
    res.samples = [{"objects": [dict((k, v) for k, v in ob.items() if k in ("kind", "xrange", "model", "bins", "range", "label"))
                                for ob in (c[0]["objects"][i] for i in c[1])],
                    "order": c[1], "settings": c[0]["settings"], "status": c[3]["obs"]["status"],
                    "xlabel": c[3]["obs"].get("xlabel"), "legend": c[3]["obs"].get("legend")} for c in usable[:4]]
    res.extra["order_sets"] = len(sets)
    res.extra["mask_grid_exhaustive"] = "{} (low, high) pairs over {} for the data x = [0, 1, 2, 1]".format(n_grid, grid)
    res.extra["hist_keyword_grid_exhaustive"] = "{} combinations: binning (integer, equal sequence, unequal sequence, integer+range) " \
                                                "x density x weights x cumulative on 12 samples".format(n_hgrid)
    res.extra["histories_with_an_early_render"] = sum(1 for c in usable if c[0]["settings"].get("early_render"))
    res.extra["rendered_twice"] = sum(1 for c in usable if c[0]["settings"].get("renders", 1) > 1)
    res.extra["rendered_ok"] = len(ok_cases)
    return res
