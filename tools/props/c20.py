"""C20 -- Global settings: validated, atomic, one default, restored after temporary use."""
import json
import numpy as np
import os
import subprocess
import sys

from vlib import core, coq
from vlib.core import CorrResult, Violation, shrink_list
from vlib.coqfmt import pv_from_py, pv_to_py, pv_to_coq, coq_list, coq_option

ID = "C20"
MANIFEST = {
    "technique": "Rocq proof over a model translated from settings.py on every run (validation <-> documented, atomicity, "
                 "reset = fresh defaults by induction over call histories, try/finally restoration for any wrapped computation) "
                 "+ vm_compute correspondence + independent oracle search",
    "level_text": "Machine-checked theorems (C20_validation, C20_atomic, C20_accepts, C20_reset, C20_temporary, C20_temporary_reentrant, "
                  "C20_mc_ok_reachable, closed under the "
                  "global context) about Gallina setters that tools/translate.py regenerates from qexpy/settings/settings.py on "
                  "every run, so a change to a validation condition, a default, reset or the wrapper breaks a proof; the generated "
                  "model is additionally run against the implementation on random call histories, and an independent reference of "
                  "the documented domains searches for the concrete failing call sequence. Proof is the right level because the "
                  "property quantifies over all call histories and all values, which the theorems cover by induction.",
    "level_note": "Trusted: Coq kernel; the translator's Python-subset -> Base/Py.v combinator mapping and its two recognised shapes "
                  "of use_mc_sample_size (result variable or `return` inside `try`), inlining of private helper methods by argument substitution, "
                  "`d.update({...})` read as the item assignments in the order written; the hand-written SPEC (documented/canon/writes) in Model/Settings.v; Python value universe "
                  "restricted to ints, bools, finite floats, strings, None, enum members, tuples, lists.",
    "design_ref": "DESIGN.md section 4 C20",
}
GEN = ["SettingsGen"]
PROPS_FILE = "Props/C20.v"
MODEL_TARGETS = ["Model/SettingsCases.v"]
EXTRA_TARGETS = ["Model/SettingsCases.v"]
TRUSTED = [
    "Model/Settings.v: hand-written SPEC (documented / canon / writes) and model of the wrapper around a generated shape flag",
    "translator shape recognition of use_mc_sample_size (two recognised shapes, anything else fails closed)",
]
ASSUMPTIONS = [
    "values are ints, bools, finite floats, strings, None, enum members, tuples, lists (no NaN/inf, no numpy scalars)",
    "ErrorMethod.AUTO as a global value is outside the domain (property text)",
    "the Settings singleton is the only holder of the options (one store in the model)",
]

OPTS = ["error_method", "print_style", "unit_style", "sf_value", "sf_error", "mc_size", "plot_dims"]
COQ_OPT = {"error_method": "O_error_method", "print_style": "O_print_style", "unit_style": "O_unit_style",
           "sf_value": "O_sf_value", "sf_error": "O_sf_error", "mc_size": "O_mc_size", "plot_dims": "O_plot_dims"}
EXN = {"ValueError": "ValueError", "TypeError": "TypeError", "IndexError": "IndexError", "KeyError": "KeyError"}


def _q():
    import qexpy as q
    return q


def enums():
    q = _q()
    return {"ErrorMethod": q.ErrorMethod, "PrintStyle": q.PrintStyle, "UnitStyle": q.UnitStyle,
            "SigFigMode": q.SigFigMode}


def setter(q, opt):
    return {"error_method": q.set_error_method, "print_style": q.set_print_style,
            "unit_style": q.set_unit_style, "sf_value": q.set_sig_figs_for_value,
            "sf_error": q.set_sig_figs_for_error, "mc_size": q.set_monte_carlo_sample_size,
            "plot_dims": q.set_plot_dimensions}[opt]


def fresh_session():
    """a new Settings singleton, as in a freshly started interpreter"""
    import qexpy.settings.settings as S
    S.Settings._Settings__instance = None


def observe(handle=None):
    s = handle if handle is not None else _q().get_settings()
    vec = [("error_method", s.error_method), ("print_style", s.print_style), ("unit_style", s.unit_style),
           ("significant_figures.mode", s.sig_fig_mode), ("significant_figures.value", s.sig_fig_value),
           ("monte_carlo_sample_size", s.monte_carlo_sample_size), ("plot_dimensions", s.plot_dimensions)]
    return [[k, pv_from_py(v)] for k, v in vec]


def exn_name(e):
    return None if e is None else EXN.get(type(e).__name__, "OtherError")


# ---- generators -------------------------------------------------------------------------
ENUM_MEMBERS = {"ErrorMethod": ["DERIVATIVE", "MONTE_CARLO"], "PrintStyle": ["DEFAULT", "LATEX", "SCIENTIFIC"],
                "UnitStyle": ["FRACTION", "EXPONENTS"], "SigFigMode": ["AUTOMATIC", "VALUE", "ERROR"]}
ENUM_STRINGS = {"ErrorMethod": ["derivative", "monte-carlo"], "PrintStyle": ["default", "latex", "scientific"],
                "UnitStyle": ["fraction", "exponents"]}
OPT_ENUM = {"error_method": "ErrorMethod", "print_style": "PrintStyle", "unit_style": "UnitStyle"}
JUNK_STRINGS = ["", "auto", "Latex", "LATEX", "derivative ", "monte_carlo", "set_to_value", "3", "exponent",
                "fractions", "default", "latex", "derivative", "fraction", "scientific", "monte-carlo", "exponents"]


def gen_number(rng, positive=None):
    kind = rng.choice(["int", "int", "float", "bool"])
    if kind == "bool":
        return ["bool", rng.random() < 0.6 if positive is None else positive]
    sign = (1 if positive else -1) if positive is not None else rng.choice([1, 1, -1])
    if kind == "int":
        mag = rng.choice([0, 1, 1, 2, 3, 5, 10, 100, 10000, 123456])
        if positive and mag == 0:
            mag = 1
        return ["int", sign * mag if positive is not False else -mag]
    mag = rng.choice([0.0, 0.5, 1.0, 1.5, 2.25, 6.4, 4.8, 10.0, 1e-3])
    if positive and mag == 0:
        mag = 0.5
    return ["float", float(sign * mag if positive is not False else -mag).hex()]


def gen_junk(rng):
    k = rng.randrange(8)
    if k == 0:
        return ["none"]
    if k == 1:
        return ["str", rng.choice(JUNK_STRINGS)]
    if k == 2:
        cls = rng.choice(sorted(ENUM_MEMBERS))
        return ["enum", cls, rng.choice(ENUM_MEMBERS[cls])]
    if k == 3:
        return ["list", [gen_number(rng) for _ in range(rng.randrange(0, 4))]]
    if k == 4:
        return ["tuple", [gen_number(rng) for _ in range(rng.choice([0, 1, 2, 2, 3]))]]
    if k == 5:
        return ["tuple", [rng.choice([["str", "6"], ["none"], gen_number(rng)]), gen_number(rng)]]
    return gen_number(rng)


def gen_value(rng, opt):
    """mostly-valid values for an option"""
    if rng.random() < 0.3:
        return gen_junk(rng)
    if opt in OPT_ENUM:
        cls = OPT_ENUM[opt]
        if rng.random() < 0.5:
            return ["enum", cls, rng.choice(ENUM_MEMBERS[cls])]
        return ["str", rng.choice(ENUM_STRINGS[cls])]
    if opt in ("sf_value", "sf_error", "mc_size"):
        r = rng.random()
        if r < 0.7:
            return ["int", rng.choice([1, 2, 3, 4, 5, 6, 10, 100, 5000, 10000, 100000])]
        if r < 0.8:
            return ["bool", True]
        return gen_number(rng)
    r = rng.random()
    if r < 0.7:
        return ["tuple", [gen_number(rng, True), gen_number(rng, True)]]
    return ["tuple", [gen_number(rng), gen_number(rng)]]


INT_OPTS = ("sf_value", "sf_error", "mc_size")


def gen_history(rng, n):
    ops = []
    for _ in range(n):
        prev = ops[-1] if ops else None
        if prev and prev[0] == "set" and prev[1] in INT_OPTS and prev[2][0] == "int" and prev[2][1] > 0 and rng.random() < 0.3:
            # the number just accepted, again, but as a float (equal value, wrong type), to the same or a sibling option
            ops.append(["set", rng.choice(INT_OPTS), ["float", float(prev[2][1]).hex()]])
        elif rng.random() < 0.12:
            ops.append(["reset"])
        else:
            opt = rng.choice(OPTS)
            ops.append(["set", opt, gen_value(rng, opt)])
    return ops


# ---- running the implementation -----------------------------------------------------------
def run_op(op):
    q = _q()
    try:
        if op[0] == "reset":
            q.reset_default_configuration()
        else:
            setter(q, op[1])(pv_to_py(op[2], enums()))
        return None
    except Exception as e:  # noqa
        return exn_name(e)


def run_history(ops):
    fresh_session()
    fresh = observe()
    handle = _q().get_settings()          # a handle the user keeps for the whole session
    out = []
    for op in ops:
        e = run_op(op)
        now = observe()
        out.append([op, e, now])
        if observe(handle) != now:
            out[-1].append("the settings object obtained at the start of the session reads {} after this call".format(
                observe(handle)))
    return fresh, out


def run_wrapper(case):
    """case = {start: ops, size, inner (pv or None), raises (name or None)}"""
    q = _q()
    import qexpy.settings.settings as S
    fresh_session()
    for op in case["start"]:
        run_op(op)
    excs = {"ValueError": ValueError, "TypeError": TypeError, "KeyError": KeyError, "IndexError": IndexError,
            "OtherError": ZeroDivisionError,
            # exits that are not subclasses of Exception (Ctrl-C during a slow curve evaluation, sys.exit, a closed
            # generator): "also when they fail" covers every way the wrapped computation can be left
            "KeyboardInterrupt": KeyboardInterrupt, "SystemExit": SystemExit, "GeneratorExit": GeneratorExit}

    depth = case.get("depth", 0)

    def body(level=0):
        if level > 0:
            # the wrapped function is entered again while it is running: through the SAME decorated object (recursion)
            # or through another decoration of the same function with the same size
            return (wrapped if case.get("same", True) else S.use_mc_sample_size(pv_to_py(case["size"], enums()))(body))(level - 1)
        if case["inner"] is not None:
            q.set_monte_carlo_sample_size(pv_to_py(case["inner"], enums()))
        if case["raises"]:
            raise excs[case["raises"]]("wrapped computation failed")
        return 1

    before = observe()
    try:
        wrapped = S.use_mc_sample_size(pv_to_py(case["size"], enums()))(body)
        wrapped(depth)
        e = None
    except BaseException as ex:  # noqa
        e = exn_name(ex)
    return before, e, observe()


def fresh_interpreter_vector():
    code = ("import sys, json; sys.path.insert(0, {!r}); sys.path.insert(0, {!r});\n"
            "from vlib import core; core.setup_impl()\n"
            "from props import c20; print(json.dumps(c20.observe()))").format(
        core.REPO, os.path.join(core.VERIF, "tools"))
    p = subprocess.run([sys.executable, "-c", code], stdout=subprocess.PIPE, stderr=subprocess.PIPE, text=True,
                       env=dict(os.environ, PYTHONHASHSEED="0", MPLBACKEND="Agg"))
    if p.returncode != 0:
        raise RuntimeError("fresh interpreter failed: " + p.stderr[-300:])
    return json.loads(p.stdout.strip().split("\n")[-1])


# ---- Coq encoding ---------------------------------------------------------------------------
def in_pyval(j):
    try:
        pv_to_coq(j)
        return True
    except ValueError:
        return False


KEYS = ["error_method", "print_style", "unit_style", "significant_figures.mode", "significant_figures.value",
        "monte_carlo_sample_size", "plot_dimensions"]
INTERN = None


def ipv(j):
    return INTERN(pv_to_coq(j)) if INTERN else pv_to_coq(j)


def coq_store(obs):
    assert [k for k, _ in obs] == KEYS
    return INTERN("(mk_obs {})".format(coq_list([ipv(v) for _, v in obs])))


def coq_op(op):
    if op[0] == "reset":
        return "Reset"
    return INTERN("(Set_ {} {})".format(COQ_OPT[op[1]], ipv(op[2])))


def coq_exn(e):
    return coq_option(e, lambda x: x if x in EXN else "OtherError")


def coq_session(fresh, hist):
    return "({}, {})".format(coq_store(fresh), coq_list(
        ["({}, {}, {})".format(coq_op(op), coq_exn(e), coq_store(obs)) for op, e, obs in (st[:3] for st in hist)]))


def coq_wrapper_case(case, e, obs):
    return "({}, {}, {}%nat, {}, {}, {}, {})".format(
        coq_list([coq_op(o) for o in case["start"]]), ipv(case["size"]), case.get("depth", 0),
        coq_option(case["inner"], ipv), coq_exn(case["raises"]), coq_exn(e), coq_store(obs))


HEADER = coq.HEADER + "From QV Require Import Base.Py Base.CaseLib Gen.SettingsGen Model.Settings Model.SettingsCases.\n"


# ---- correspondence ---------------------------------------------------------------------------
def gen_wrapper_case(rng):
    return {"start": gen_history(rng, rng.randrange(0, 4)),
            "size": rng.choice([["int", 10], ["int", 10000], ["int", 1], ["int", 0], ["int", -5], ["str", "10"],
                                ["float", (2.5).hex()], ["bool", True]]),
            "depth": rng.choice([0, 0, 1, 2, 3]), "same": rng.random() < 0.7,
            "inner": rng.choice([None, None, ["int", 77], ["int", -1]]),
            "raises": rng.choice([None, None, "ValueError", "TypeError", "OtherError", "KeyError",
                                  "KeyboardInterrupt", "SystemExit", "GeneratorExit"])}


def correspondence(ctx):
    res = CorrResult()
    rng = ctx.rng
    n_hist = ctx.n(240, 4000)
    n_wrap = ctx.n(120, 1500)
    sessions, wcases = [], []
    for i in range(n_hist):
        ops = gen_history(rng, rng.randrange(3, 24))
        fresh, hist = run_history(ops)
        sessions.append((ops, fresh, hist))
        res.evaluations += 1
        res.traces += 1
        for op, e, _ in (st[:3] for st in hist):
            res.count(op[0] + ":" + (op[1] if op[0] == "set" else "") + ":" + ("ok" if e is None else e))
        if any(e is not None for _, e, _ in (st[:3] for st in hist)) and any(e is None for _, e, _ in (st[:3] for st in hist)):
            res.nontrivial.add(core.canonical_key("h", ops))
    for i in range(n_wrap):
        c = gen_wrapper_case(rng)
        before, e, obs = run_wrapper(c)
        wcases.append((c, e, obs))
        res.evaluations += 1
        res.count("wrapper:" + ("raises" if c["raises"] else "returns") + ":" + ("ok" if e is None else e))
        res.nontrivial.add(core.canonical_key("w", c))
    res.rule = ("random API histories (3-23 calls of the seven q.set_* functions and reset, ~70% documented values, "
                "rest of every Python type in PyVal) on a new Settings singleton, observing the whole option vector "
                "with Python type tags after each call (an accepted integer is sometimes offered again as the float of the same "
                "value); plus use_mc_sample_size wrapped around functions that return / raise (Exception subclasses, KeyboardInterrupt, "
                "SystemExit, GeneratorExit) / change the size themselves / enter themselves again 0-3 times (same or separately "
                "decorated function). non-trivial = a history with at least one accepted and "
                "one rejected call (distinct by content); every wrapper case counts")
    res.samples = [{"history": sessions[0][0][:6]}, {"wrapper": wcases[0][0]}]
    # shards
    global INTERN
    from vlib.coqfmt import Interner
    shards, index = [], []
    per = 60
    for k in range(0, len(sessions), per):
        chunk = sessions[k:k + per]
        INTERN = Interner()
        body = coq_list([coq_session(f, h) for _, f, h in chunk])
        text = HEADER + INTERN.text() + "Definition cases := {}.\nEval vm_compute in (bad_indices check_session cases).\n".format(body)
        shards.append(text)
        index.append(("session", k))
    for k in range(0, len(wcases), 150):
        chunk = wcases[k:k + 150]
        INTERN = Interner()
        body = coq_list([coq_wrapper_case(c, e, o) for c, e, o in chunk])
        text = HEADER + INTERN.text() + "Definition cases := {}.\nEval vm_compute in (bad_indices check_wrapper cases).\n".format(body)
        shards.append(text)
        index.append(("wrapper", k))
    INTERN = None
    bads, logs = coq.run_case_files(ID, shards, keep=getattr(ctx, "keep_cases", False))
    for (kind, base), bad, log in zip(index, bads, logs):
        if bad is None:
            res.disagreements.append({"name": "case file did not evaluate ({} shard at {}): {}".format(
                kind, base, log.strip().split("\n")[-1][:200]), "case": None})
            continue
        for i in bad[0]:
            if kind == "session":
                ops = sessions[base + i][0]
                res.disagreements.append({"name": "Model.Settings.step vs q.set_*/reset", "kind": "history", "case": ops})
            else:
                res.disagreements.append({"name": "Model.Settings.wrapper vs use_mc_sample_size", "kind": "wrapper",
                                          "case": wcases[base + i][0]})
    # the fresh-interpreter vector must equal the new-singleton vector used above
    fresh_real = fresh_interpreter_vector()
    fresh_session()
    if fresh_real != observe():
        res.disagreements.append({"name": "fresh interpreter vector differs from a new Settings()", "case": fresh_real})
    res.extra["fresh_interpreter_vector"] = fresh_real
    return res


# ---- the property-level oracle (independent of the Coq model) ---------------------------------------
def documented(opt, j):
    t = j[0]
    if opt in OPT_ENUM:
        cls = OPT_ENUM[opt]
        if t == "enum":
            return j[1] == cls and j[2] in ENUM_MEMBERS[cls]
        return t == "str" and j[1] in ENUM_STRINGS[cls]
    if opt in ("sf_value", "sf_error", "mc_size"):
        return (t == "int" and j[1] > 0) or (t == "bool" and j[1] is True)
    if t != "tuple" or len(j[1]) != 2:
        return False

    def pos(x):
        return (x[0] == "int" and x[1] > 0) or (x[0] == "bool" and x[1] is True) or \
            (x[0] == "float" and float.fromhex(x[1]) > 0)
    return all(pos(x) for x in j[1])


def canon(opt, j):
    if opt in OPT_ENUM and j[0] == "str":
        cls = OPT_ENUM[opt]
        return ["enum", cls, ENUM_MEMBERS[cls][ENUM_STRINGS[cls].index(j[1])]]
    return j


def expected_after(state, op, fresh):
    """reference semantics from the property text; state = dict key -> pv json"""
    if op[0] == "reset":
        return dict(fresh), True
    opt, v = op[1], op[2]
    if not documented(opt, v):
        return dict(state), False
    new = dict(state)
    if opt in OPT_ENUM:
        new[opt] = canon(opt, v)
    elif opt == "sf_value":
        new["significant_figures.value"] = v
        new["significant_figures.mode"] = ["enum", "SigFigMode", "VALUE"]
    elif opt == "sf_error":
        new["significant_figures.value"] = v
        new["significant_figures.mode"] = ["enum", "SigFigMode", "ERROR"]
    elif opt == "mc_size":
        new["monte_carlo_sample_size"] = v
    else:
        new["plot_dimensions"] = v
    return new, True


def same_value(a, b):
    """Python equality of the two encoded values (True == 1 == 1.0), plus equal type tags"""
    return a == b


def check_history_oracle(ops, fresh_vec):
    """returns None or a description of the first step that contradicts the property"""
    fresh, hist = run_history(ops)
    if fresh != fresh_vec:
        return "a new session starts with {} but a fresh interpreter has {}".format(fresh, fresh_vec)
    state = dict((k, v) for k, v in fresh_vec)
    for i, step in enumerate(hist):
        op, e, obs = step[:3]
        if len(step) > 3:
            return "step {} {}: one default / one store: {}, q.get_settings() reads {}".format(i, op, step[3], obs)
        exp, accepted = expected_after(state, op, dict((k, v) for k, v in fresh_vec))
        got = dict((k, v) for k, v in obs)
        if accepted and e is not None:
            return "step {} {}: a documented value was rejected with {}".format(i, op, e)
        if not accepted and e is None:
            return "step {} {}: a value outside the documented domain was accepted".format(i, op)
        if got != exp:
            diff = {k: (exp[k], got.get(k)) for k in exp if exp[k] != got.get(k)}
            return "step {} {}: options after the call differ from the expected ones (expected, observed): {}".format(
                i, op, diff)
        state = exp
    return None


def check_wrapper_oracle(case):
    before, e, after = run_wrapper(case)
    b, a = dict((k, v) for k, v in before), dict((k, v) for k, v in after)
    if b["monte_carlo_sample_size"] != a["monte_carlo_sample_size"]:
        return "use_mc_sample_size({}) around a function that {}{}: sample size {} before, {} after".format(
            case["size"], "raises " + case["raises"] if case["raises"] else "returns",
            " after entering itself {} more time(s)".format(case["depth"]) if case.get("depth") else "",
            b["monte_carlo_sample_size"], a["monte_carlo_sample_size"])
    return None


def check_plot_wrapper_oracle():
    """curve evaluation while plotting lowers the sample size and must restore it, also on failure"""
    q = _q()
    fresh_session()
    import qexpy.plotting.plotobjects as po
    out = []
    for size in (123, 10000, 55555):
        q.set_monte_carlo_sample_size(size)

        for attr, exc in (("yvalues", ZeroDivisionError), ("yerr", ZeroDivisionError),
                          ("yvalues", KeyboardInterrupt), ("yerr", SystemExit)):
            def make_bad(exc_class):
                def bad(x):
                    raise exc_class("user function fails")
                return bad
            f = po.FunctionOnPlot(make_bad(exc), xrange=(0, 1))
            try:
                getattr(f, attr)
            except BaseException:  # noqa
                pass
            now = q.get_settings().monte_carlo_sample_size
            if now != size:
                out.append("FunctionOnPlot.{} with a failing function: sample size {} before, {} after".format(
                    attr, size, now))
                q.set_monte_carlo_sample_size(size)
        # ... and through the public rendering path: a plot with a curve whose evaluation fails / succeeds
        import qexpy.plotting as qp
        import tempfile
        for exc in (ZeroDivisionError, KeyboardInterrupt, None):
            def make_curve(exc_class):
                def curve(x):
                    if exc_class is not None and np.any(np.asarray(x) > 0.5):
                        raise exc_class("user function fails")       # (only on part of the range: the plot is set up first)
                    return 2 * x
                return curve
            curve = make_curve(exc)
            for how in ("savefig", "show"):
                try:
                    fig = qp.plot(curve, xrange=(0, 1))
                    if how == "savefig":
                        with tempfile.TemporaryDirectory() as d:
                            fig.savefig(os.path.join(d, "p.png"))
                    else:
                        fig.show()
                except BaseException:  # noqa
                    pass
                finally:
                    import matplotlib.pyplot as plt
                    plt.close("all")
                now = q.get_settings().monte_carlo_sample_size
                if now != size:
                    out.append("plot(function).{}() with a function that {}: sample size {} before, {} after".format(
                        how, "raises " + exc.__name__ if exc else "returns", size, now))
                    q.set_monte_carlo_sample_size(size)
        a = q.Measurement(5, 0.5)
        g = po.FunctionOnPlot(lambda x: a * x, xrange=(0, 1))
        _ = g.yvalues, g.yerr
        now = q.get_settings().monte_carlo_sample_size
        if now != size:
            out.append("FunctionOnPlot.yvalues: sample size {} before, {} after".format(size, now))
    fresh_session()
    return out


def search(ctx, suspects, budget):
    import time
    t0 = time.time()
    out = []
    fresh_vec = fresh_interpreter_vector()
    fresh_session()
    # reset must give the fresh-interpreter vector from any state
    todo_h = [s["case"] for s in suspects if s.get("kind") == "history" and s.get("case")]
    todo_w = [s["case"] for s in suspects if s.get("kind") == "wrapper" and s.get("case")]
    corpus = load_corpus()
    todo_h += [c["case"] for c in corpus if c["kind"] == "history"]
    todo_w += [c["case"] for c in corpus if c["kind"] == "wrapper"]
    rng = ctx.rng
    n = 0
    while True:
        if todo_h:
            ops = todo_h.pop(0)
        elif time.time() - t0 > budget or n > ctx.n(400, 20000):
            break
        else:
            ops = gen_history(rng, rng.randrange(2, 16)) + [["reset"]]
        n += 1
        why = check_history_oracle(ops, fresh_vec)
        if why:
            small = shrink_list(ops, lambda o: check_history_oracle(o, fresh_vec) is not None)
            v = Violation(ID, "history", small, check_history_oracle(small, fresh_vec) or why)
            if not core.fresh_process_fails(v) and core.fresh_process_fails(Violation(ID, "history", ops, why)):
                # the in-process shrinker was helped by state left behind by earlier calls: shrink again, judging every
                # candidate in a fresh interpreter
                small = shrink_list(ops, lambda o: core.fresh_process_fails(Violation(ID, "history", o, why)), max_rounds=2)
                v = Violation(ID, "history", small, why + " (history judged in a fresh interpreter)")
            out.append(v)
            if len(out) >= 3:
                break
    m = 0
    while len(out) < 5:
        if todo_w:
            c = todo_w.pop(0)
        elif m > ctx.n(150, 3000):
            break
        else:
            c = gen_wrapper_case(rng)
        m += 1
        why = check_wrapper_oracle(c)
        if why:
            c2 = dict(c, start=[])
            if check_wrapper_oracle(c2):
                c, why = c2, check_wrapper_oracle(c2)
            out.append(Violation(ID, "wrapper", c, why))
            break
    for why in check_plot_wrapper_oracle():
        out.append(Violation(ID, "plot-wrapper", {"call": "FunctionOnPlot.yvalues/yerr"}, why))
        break
    fresh_session()
    ctx.notes.append("oracle: {} histories, {} wrapper cases".format(n, m))
    return out


def load_corpus():
    d = os.path.join(core.VERIF, "corpus", ID)
    out = []
    if os.path.isdir(d):
        for f in sorted(os.listdir(d)):
            if f.endswith(".json"):
                out.append(json.load(open(os.path.join(d, f))))
    return out


def replay(ctx, v):
    if v["kind"] == "history":
        why = check_history_oracle(v["case"], fresh_interpreter_vector())
    elif v["kind"] == "wrapper":
        why = check_wrapper_oracle(v["case"])
    else:
        r = check_plot_wrapper_oracle()
        why = r[0] if r else None
    fresh_session()
    return Violation(ID, v["kind"], v["case"], why) if why else None
