"""Shared harness for the core propagation properties (C01, C03, C05, C15):
programs that build expression DAGs through the public API, their execution on the implementation,
their encoding for Model/CoreQ.v, and an independent pure-Python interpreter for the oracle."""
import math
import warnings
from fractions import Fraction

from vlib import core
from vlib.coqfmt import qlit, coq_list, Interner

UN_FUNCS = ["sqrt", "exp", "log", "log10", "sin", "cos", "tan", "sec", "csc", "cot", "asin", "acos", "atan"]
DEG_FUNCS = ["sind", "cosd", "tand", "secd", "cscd", "cotd"]
COQ_UOP = {"neg": "NEG", "sqrt": "SQRT", "exp": "EXP", "log": "LN", "log10": "LOG10", "sin": "SIN", "cos": "COS",
           "tan": "TAN", "sec": "SEC", "csc": "CSC", "cot": "COT", "asin": "ASIN", "acos": "ACOS", "atan": "ATAN"}
COQ_BOP = {"add": "ADD", "sub": "SUB", "mul": "MUL", "div": "DIV", "pow": "POW", "log2": "LOG"}


def q():
    import qexpy
    return qexpy


def reset_world():
    qq = q()
    import qexpy.settings.settings as S
    S.Settings._Settings__instance = None
    qq.reset_correlations()
    qq.clear_unit_definitions()
    from qexpy.data.data import ExperimentalValue
    ExperimentalValue._register.clear()


def dyadic(rng, lo_exp=-4, hi=64):
    """a dyadic rational k / 2^j as a float (exactly representable)"""
    j = rng.randrange(0, -lo_exp + 1)
    k = rng.randrange(-hi * (1 << j), hi * (1 << j) + 1)
    return k / float(1 << j)


# ---- pure python semantics (independent of the library's tables) ------------------------------
def py_un(op, x):
    return {
        "neg": lambda: -x, "sqrt": lambda: math.sqrt(x), "exp": lambda: math.exp(x), "log": lambda: math.log(x),
        "log10": lambda: math.log10(x), "sin": lambda: math.sin(x), "cos": lambda: math.cos(x),
        "tan": lambda: math.tan(x), "sec": lambda: 1 / math.cos(x), "csc": lambda: 1 / math.sin(x),
        "cot": lambda: 1 / math.tan(x), "asin": lambda: math.asin(x), "acos": lambda: math.acos(x),
        "atan": lambda: math.atan(x)}[op]()


def py_bin(op, a, b):
    if op == "add":
        return a + b
    if op == "sub":
        return a - b
    if op == "mul":
        return a * b
    if op == "div":
        return a / b
    if op == "pow":
        return a ** b
    if op == "log2":
        return math.log(b) / math.log(a)
    raise ValueError(op)


def in_domain_un(op, x):
    if op == "neg":
        return True
    if op in ("sqrt", "log", "log10"):
        return x > 0.125
    if op == "exp":
        return abs(x) < 6
    if op in ("sin", "cos", "atan"):
        return abs(x) < 12
    if op in ("tan", "sec"):
        return abs(x) < 12 and abs(math.cos(x)) > 0.125
    if op in ("csc", "cot"):
        return abs(x) < 12 and abs(math.sin(x)) > 0.125 and (op != "cot" or abs(math.cos(x)) > 0.05)
    if op in ("asin", "acos"):
        return abs(x) < 0.875
    return False


def in_domain_bin(op, a, b, b_is_int_const):
    if op in ("add", "sub", "mul"):
        return True
    if op == "div":
        return abs(b) > 1 / 64
    if op == "pow":
        if a > 0.125:
            return abs(b) < 6 and abs(b * math.log(a)) < 12
        if a == 0:
            return b_is_int_const and 1 <= b <= 4          # 0 ** k, k a whole constant >= 1: value 0, derivative k * 0 ** (k-1)
        return b_is_int_const and abs(a) > 1 / 64 and abs(b) <= 4
    if op == "log2":
        return a > 0.125 and abs(a - 1) > 0.125 and b > 0.125
    return False


# ---- programs ---------------------------------------------------------------------------------
# step kinds:
#   ["meas", v, e]                          new measurement
#   ["un", op, ref]                         derived = op(ref)                 (op in COQ_UOP)
#   ["bin", op, refa, refb]                 derived = refa op refb            (op in COQ_BOP)
#   refs: ["obj", id] | ["const", number] | ["pair", v, e] (a (value, error) tuple operand: creates a measurement)
# every step creates exactly one NEW object except a "pair" operand, which creates one more before it.

NUMBER_TYPES = ["np.float64", "np.float32", "np.int64", "np.int8", "np.int32", "Fraction", "np.float16", "bool"]


def typed_number(x, tag):
    """the number x (exactly representable in the tagged type) as an object of that type; None: as it is"""
    if tag is None:
        return x
    import numpy as np
    if tag == "Fraction":
        return Fraction(x)
    if tag == "bool":
        return bool(x)
    return getattr(np, tag[3:])(x)


def number_tag(rng, c):
    """a type in which the constant c is exactly representable (or None: plain int / float)"""
    if rng.random() > 0.2:
        return None
    import numpy as np
    cands = []
    for tag in NUMBER_TYPES:
        try:
            if tag == "bool":
                ok = c in (0, 1)
            elif tag == "Fraction":
                ok = True
            elif "int" in tag:
                ok = float(c).is_integer() and abs(c) < 100
            else:
                ok = float(getattr(np, tag[3:])(c)) == float(c)
        except (OverflowError, ValueError):
            ok = False
        if ok:
            cands.append(tag)
    return rng.choice(cands) if cands else None


def typed_family():
    """deterministic programs: one measurement combined with a constant of every number type in every operand position
    (numbers large enough that fixed-width integer arithmetic or a narrow float would show)"""
    out = []
    for tag in NUMBER_TYPES:
        for c in (300, 10, 3, 70000, 1):
            try:
                if tag == "bool" and c != 1:
                    continue
                if tag != "Fraction" and tag != "bool":
                    import numpy as np
                    if float(getattr(np, tag[3:])(c)) != float(c):
                        continue
            except (OverflowError, ValueError):
                continue
            k = ["const", c, tag]
            x = ["obj", 0]
            for st in (["bin", "div", x, k], ["bin", "div", k, x], ["bin", "mul", x, k], ["bin", "sub", k, x],
                       ["bin", "log2", k, x], ["bin", "log2", x, k], ["bin", "pow", x, ["const", min(c, 3), tag]]):
                if st[1] == "log2" and c == 1:
                    continue
                if st[1] == "pow" and tag == "bool":
                    continue
                out.append(([["meas", 2.5, 0.25], st, ["bin", "mul", ["obj", 1], ["obj", 1]]], []))
    return out


class World:
    """executes a program on the implementation, keeping python objects by model id"""

    def __init__(self):
        reset_world()
        self.objs = []        # python objects by id (None for ids we hold no reference to)
        self.model = []       # model objects, OLDEST first: ("meas", v, e) | ("un", op, ref) | ("bin", op, ra, rb)
        self.uuid2id = {}

    def _register(self, pyobj, model_obj):
        self.objs.append(pyobj)
        self.model.append(model_obj)
        if pyobj is not None:
            self.uuid2id[pyobj._id] = len(self.objs) - 1
        return len(self.objs) - 1

    def operand(self, ref):
        """python operand and model ref for a program ref (may create a measurement for a pair)"""
        if ref[0] == "obj":
            return self.objs[ref[1]], ["obj", ref[1]], None
        if ref[0] == "const":
            return typed_number(ref[1], ref[2] if len(ref) > 2 else None), ["const", ref[1]], None
        if ref[0] == "pair":
            return (ref[1], ref[2]), None, ("meas", float(ref[1]), float(ref[2]))
        raise ValueError(ref)

    def run_step(self, st):
        qq = q()
        if st[0] == "read":
            # the quantity is evaluated (value, uncertainty, a derivative) BEFORE later steps use it as an operand:
            # whatever the library buffers at this point must not leak into the results built on top of it
            r = self.objs[st[1]]
            with warnings.catch_warnings():
                warnings.simplefilter("ignore")
                _ = r.value, r.error
                for m in self.measurement_ids()[:2]:
                    r.derivative(self.objs[m])
            return None
        if st[0] == "poison":
            # an unrelated calculation whose derivative raises (0 ** -1): whatever it leaves behind in the library
            # must not affect later results
            try:
                with warnings.catch_warnings():
                    warnings.simplefilter("ignore")
                    z = qq.Measurement(0.0, 0.125)
                    (z ** -1).derivative(z)
            except Exception:  # noqa
                pass
            return None
        if st[0] == "meas":
            m = qq.Measurement(st[1], st[2])
            return self._register(m, ("meas", float(st[1]), float(st[2])))
        if st[0] == "un":
            op = st[1]
            a, ra, _ = self.operand(st[2])
            res = (-a) if op == "neg" else getattr(qq, op)(a)
            return self._register(res, ("un", op, ra))
        if st[0] == "deg":
            # q.sind(x) = sin(x / 180 * pi): the library builds three calculated quantities
            a, ra, _ = self.operand(st[2])
            res = getattr(qq, st[1] + "d")(a)
            i1 = self._register(None, ("bin", "div", ra, ["const", 180]))
            i2 = self._register(None, ("bin", "mul", ["obj", i1], ["const", math.pi]))
            return self._register(res, ("un", st[1], ["obj", i2]))
        if st[0] == "bin":
            op = st[1]
            a, ra, pa = self.operand(st[2])
            b, rb, pb = self.operand(st[3])
            if op == "add":
                res = a + b
            elif op == "sub":
                res = a - b
            elif op == "mul":
                res = a * b
            elif op == "div":
                res = a / b
            elif op == "pow":
                res = a ** b
            elif op == "log2":
                res = qq.log(a, b)
            else:
                raise ValueError(op)
            # a pair operand has created a measurement inside the library just before the result
            for idx, (p, which) in enumerate(((pa, 0), (pb, 1))):
                if p is not None:
                    pyobj = res._formula.operands[which]
                    pid = self._register(pyobj, p)
                    if which == 0:
                        ra = ["obj", pid]
                    else:
                        rb = ["obj", pid]
            return self._register(res, ("bin", op, ra, rb))
        raise ValueError(st)

    # -- observations -------------------------------------------------------------------------
    def measurement_ids(self):
        return [i for i, m in enumerate(self.model) if m[0] == "meas"]

    def derived_ids(self):
        return [i for i, m in enumerate(self.model) if m[0] != "meas" and self.objs[i] is not None]

    def observe(self, k, with_sources=True):
        r = self.objs[k]
        with warnings.catch_warnings():
            warnings.simplefilter("ignore")
            v, e = float(r.value), float(r.error)
            ds = [[m, float(r.derivative(self.objs[m]))] for m in self.measurement_ids()]
            srcs = None
            if with_sources:
                ev = r._DerivedValue__evaluators["derivative"]
                srcs = sorted(self.uuid2id[x._id] for x in ev.measurements)
        return {"id": k, "value": v, "error": e, "sources": srcs, "derivs": ds}


# ---- generation ----------------------------------------------------------------------------------
def gen_program(rng, n_meas=None, n_ops=None, rational_only=False, allow_pairs=True):
    """returns (steps, correlations).  Central values are kept inside the operators' domains by
    evaluating with floats while generating."""
    n_meas = n_meas or rng.randrange(1, 5)
    n_ops = n_ops or rng.randrange(1, 9)
    steps, vals, kinds = [], [], []      # vals: float value of each object id
    hidden = set()                       # intermediate results the harness holds no reference to
    scaled = set()                       # objects built with a 2^+-30 scale factor (and what is built on them): they are kept
    #                                      out of the transcendental functions (sin(2^30 x) cannot be judged by differences)
    small_scale = rng.random() < 0.12    # every uncertainty of the program far below any absolute tolerance (1e-8 ...)
    for _ in range(n_meas):
        v = dyadic(rng, -3, 8)
        if abs(v) < 0.25:
            v = 0.5 + abs(v)
        if rng.random() < 0.07:
            v = 0.0                        # a central value of exactly 0 (inside the domain of + - * neg and whole powers >= 1)
        elif rng.random() < 0.1:
            v = rng.choice([10.0, 1.0, 2.0, -1.0, 100.0, 10.0])     # numbers a shortcut might single out (bases, units)
        elif vals and rng.random() < 0.15:
            v = rng.choice(vals)           # a DISTINCT measurement with the same central value as an earlier one
        e = rng.choice([0.0, 0.125, 0.25, 0.5, 0.0625, 1.0, dyadic(rng, -4, 1) ** 2])
        if rng.random() < 0.1:
            e = rng.choice([2.0 ** -14, 2.0 ** -17, 3 * 2.0 ** -16, 2.0 ** -20])   # small against every absolute tolerance
        if small_scale and e > 0:
            e = rng.choice([2.0 ** -14, 2.0 ** -15, 3 * 2.0 ** -16, 5 * 2.0 ** -17])
        steps.append(["meas", v, abs(e)])
        vals.append(v)
        kinds.append("meas")
    tries = 0
    made = 0
    if rng.random() < 0.12:
        steps.append(["poison"])
    while made < n_ops and tries < 200:
        tries += 1

        def pick_obj():
            # prefer recent objects so that intermediate results get reused (sharing)
            while True:
                i = rng.randrange(len(vals))
                if rng.random() < 0.5:
                    i = max(i, rng.randrange(len(vals)))
                if i not in hidden:
                    return i
        r = rng.random()
        if not rational_only and r > 0.93:
            fn = rng.choice(["sin", "cos", "tan", "sec", "csc", "cot"])
            i = pick_obj()
            arg = vals[i] / 180 * math.pi
            if i in scaled or abs(vals[i]) > 720 or not in_domain_un(fn, arg):
                continue
            steps.append(["deg", fn, ["obj", i]])
            hidden.update([len(vals), len(vals) + 1])
            vals.extend([vals[i] / 180, arg, py_un(fn, arg)])
            kinds.extend(["der", "der", "der"])
            made += 1
            continue
        if r < (0.25 if rational_only else 0.45):
            op = "neg" if rational_only or rng.random() < 0.15 else rng.choice(UN_FUNCS)
            i = pick_obj()
            if not in_domain_un(op, vals[i]) or (i in scaled and op != "neg"):
                continue
            try:
                nv = py_un(op, vals[i])
            except (ValueError, ZeroDivisionError, OverflowError):
                continue
            if not (abs(nv) < 2 ** 16):
                continue
            steps.append(["un", op, ["obj", i]])
            if i in scaled:
                scaled.add(len(vals))
            vals.append(nv)
            kinds.append("der")
            made += 1
            continue
        op = rng.choice(["add", "sub", "mul", "div", "pow"] if rational_only else
                        ["add", "sub", "mul", "div", "pow", "log2", "add", "sub", "mul", "div"])
        form = rng.choice(["oo", "oo", "oc", "co", "op", "po"] if allow_pairs else ["oo", "oo", "oc", "co"])
        i, j = pick_obj(), pick_obj()

        def const():
            c = rng.choice([1, 2, 3, -1, -2, 0.5, 1.5, 2.5, 4, 0.25, dyadic(rng, -2, 6)])
            if op in ("mul", "div") and rng.random() < 0.12:
                c = rng.choice([2.0 ** -30, 2.0 ** -40, 2.0 ** 30, 3 * 2.0 ** -31])   # scale factors: small / large derivatives
            if op == "pow" and form == "oc":
                c = rng.choice([2, 3, -1, -2, 2, 0.5, 1.5, 1, 4]) if not rational_only else rng.choice([2, 3, -1, -2, 1, 4])
            return c

        def pair():
            earlier = [r for st in steps if st[0] == "bin" for r in st[2:4] if r[0] == "pair"]
            if earlier and rng.random() < 0.3:
                return list(rng.choice(earlier))      # an EQUAL pair: still a new, independent measurement
            v = dyadic(rng, -2, 6)
            if abs(v) < 0.25:
                v = 1.0 + abs(v)
            return ["pair", v, rng.choice([0.125, 0.25, 0.5, 0.0])]
        if form == "oo":
            ra, rb, a, b = ["obj", i], ["obj", j], vals[i], vals[j]
        elif form == "oc":
            c = const()
            tag = number_tag(rng, c)
            ra, rb, a, b = ["obj", i], (["const", c, tag] if tag else ["const", c]), vals[i], c
        elif form == "co":
            c = const()
            tag = number_tag(rng, c)
            ra, rb, a, b = (["const", c, tag] if tag else ["const", c]), ["obj", j], c, vals[j]
        elif form == "op":
            p = pair()
            ra, rb, a, b = ["obj", i], p, vals[i], p[1]
        else:
            p = pair()
            ra, rb, a, b = p, ["obj", j], p[1], vals[j]
        b_int_const = rb[0] == "const" and float(rb[1]).is_integer()
        if rational_only and op == "pow" and not b_int_const:
            continue
        if not in_domain_bin(op, a, b, b_int_const):
            continue
        try:
            nv = py_bin(op, a, b)
        except (ValueError, ZeroDivisionError, OverflowError):
            continue
        if isinstance(nv, complex) or not (abs(nv) < 2 ** 48) or (nv != 0 and abs(nv) < 2 ** -70):
            continue
        if op in ("pow", "log2") and any(r[0] == "obj" and r[1] in scaled for r in (ra, rb)):
            continue
        steps.append(["bin", op, ra, rb])
        for ref in (ra, rb):
            if ref[0] == "pair":
                vals.append(ref[1])
                kinds.append("meas")
        if any((r[0] == "obj" and r[1] in scaled) or (r[0] == "const" and not (2.0 ** -20 < abs(r[1]) < 2.0 ** 20)) for r in (ra, rb)):
            scaled.add(len(vals))
        vals.append(nv)
        kinds.append("der")
        made += 1
        if form == "oo" and op in ("sub", "div", "pow", "log2") and i != j and rng.random() < 0.3 \
                and in_domain_bin(op, b, a, False):
            # the same two operands in the OTHER order, and both results in one formula
            try:
                rv = py_bin(op, b, a)
                comb = rng.choice(["add", "mul"])
                cv = py_bin(comb, nv, rv)
                if not isinstance(rv, complex) and abs(rv) < 2 ** 16 and abs(cv) < 2 ** 16:
                    first = len(vals) - 1
                    steps.append(["bin", op, ["obj", j], ["obj", i]])
                    vals.append(rv)
                    kinds.append("der")
                    steps.append(["bin", comb, ["obj", first], ["obj", first + 1]])
                    vals.append(cv)
                    kinds.append("der")
                    made += 2
                    if i in scaled or j in scaled:
                        scaled.update([first + 1, first + 2])
            except (ValueError, ZeroDivisionError, OverflowError):
                pass
        if rng.random() < 0.2:
            steps.append(["read", len(vals) - 1])
    # correlations between measurements with non-zero uncertainty (explicit measurements only)
    # the matrix is kept diagonally dominant (hence positive semi-definite: a jointly non-physical assignment makes the
    # propagated variance negative, which the library rejects)
    corr = []
    rowsum = {}
    ms = [k for k, s in enumerate(steps[:n_meas]) if s[2] > 0]
    for a in range(len(ms)):
        for b in range(a + 1, len(ms)):
            if rng.random() < 0.5:
                r = rng.choice([0.5, -0.5, 0.25, -0.75, 1.0, -1.0, 0.125, 0.875])
                if rowsum.get(ms[a], 0) + abs(r) <= 1 and rowsum.get(ms[b], 0) + abs(r) <= 1:
                    if rng.random() < 0.3:
                        # the pair is first given another correlation, named in the OTHER order: the later call replaces it
                        corr.append([ms[b], ms[a], rng.choice([0.5, -0.5, 0.25, -0.25, 0.75])])
                    corr.append([ms[a], ms[b], r])
                    rowsum[ms[a]] = rowsum.get(ms[a], 0) + abs(r)
                    rowsum[ms[b]] = rowsum.get(ms[b], 0) + abs(r)
    return steps, corr


def has_scale_factor(steps):
    """a constant outside (2^-20, 2^20): such programs are judged by the oracle only -- in the rational correspondence the
    cancellation noise of doubles (1e-16 of 2^30-sized intermediate terms) exceeds the 1e-9 comparison of small results"""
    return any(r[0] == "const" and r[1] != 0 and not (2.0 ** -20 < abs(r[1]) < 2.0 ** 20)
               for st in steps if st[0] in ("un", "bin", "deg") for r in st[2:] if isinstance(r, (list, tuple)))


def effective_corr(corr):
    """the correlations in force after all calls: per unordered pair the LAST one"""
    last = {}
    for i, j, r in corr:
        last[(min(i, j), max(i, j))] = [i, j, r]
    return list(last.values())


def execute(steps, corr, corr_after=False):
    w = World()
    n_meas = len([s for s in steps if s[0] == "meas"])
    for s in steps[:n_meas]:
        w.run_step(s)
    if not corr_after:
        for i, j, r in corr:
            q().set_correlation(w.objs[i], w.objs[j], r)
    for s in steps[n_meas:]:
        w.run_step(s)
    if corr_after:
        for i, j, r in corr:
            q().set_correlation(w.objs[i], w.objs[j], r)
        if corr and any(s[0] == "read" for s in steps):
            # results that were read before the correlations were set keep their buffered numbers until they are
            # recalculated (C05): bring them up to date, the law is stated for the current correlations
            for k in w.derived_ids():
                w.objs[k].recalculate()
    return w


# ---- Coq encoding -----------------------------------------------------------------------------------
def coq_num(x, I):
    return I("(Some {})".format(qlit(x)))


def coq_ref(ref, I):
    if ref[0] == "obj":
        return "(RObj {})".format(ref[1])
    return "(RConst {})".format(coq_num(ref[1], I))


def coq_obj(m, I):
    if m[0] == "meas":
        return "(OMeas {} {})".format(coq_num(m[1], I), coq_num(m[2], I))
    if m[0] == "un":
        return "(ODer (FU {} {}))".format(COQ_UOP[m[1]], coq_ref(m[2], I))
    return "(ODer (FB {} {} {}))".format(COQ_BOP[m[1]], coq_ref(m[2], I), coq_ref(m[3], I))


def coq_case(model, corr, observations, I, with_sources=True):
    """model: list oldest first"""
    objs = coq_list([coq_obj(m, I) for m in reversed(model)])
    tbl = coq_list(["({}%nat, {}%nat, {})".format(i, j, qlit(r)) for i, j, r in effective_corr(corr)])
    vscale = max([1.0] + [abs(o["value"]) for o in observations] + [abs(m[1]) for m in model if m[0] == "meas"])
    dscale = max([1.0] + [abs(d) for o in observations for _, d in o["derivs"]])
    obs = coq_list(["({}%nat, {}, {}, {}, {})".format(
        o["id"], qlit(o["value"]), qlit(o["error"]),
        coq_list([str(s) + "%nat" for s in (o["sources"] or [])]),
        coq_list(["({}%nat, {})".format(m, qlit(d)) for m, d in o["derivs"]])) for o in observations])
    return "({}, {}, {}, {}, {})".format(objs, tbl, qlit(Fraction(vscale) / 10 ** 9), qlit(Fraction(dscale) / 10 ** 9), obs)


HEADER = ("From Coq Require Import List ZArith QArith Bool.\nImport ListNotations.\n"
          "From QV Require Import Base.QOps Base.CaseLib Gen.OpsTable Model.Core Model.CoreQ.\n"
          "Open Scope Q_scope.\n")


# ---- independent interpreter for the oracle ----------------------------------------------------------
def interp(model, upto, override=None):
    """float values of objects 0..upto with optional overriding of measurement values {id: value}"""
    vals = []
    for k, m in enumerate(model[:upto + 1]):
        if m[0] == "meas":
            vals.append(override[k] if override and k in override else m[1])
        elif m[0] == "un":
            vals.append(py_un(m[1], _rv(vals, m[2])))
        else:
            vals.append(py_bin(m[1], _rv(vals, m[2]), _rv(vals, m[3])))
    return vals


def _rv(vals, ref):
    return vals[ref[1]] if ref[0] == "obj" else float(ref[1])


def domain_ok(model, override=None):
    """every operation of the program is inside its operator's domain (with margins) at these central values"""
    try:
        vals = interp(model, len(model) - 1, override)
    except (ValueError, ZeroDivisionError, OverflowError, TypeError):
        return False
    for k, m in enumerate(model):
        if m[0] == "un" and not in_domain_un(m[1], _rv(vals, m[2])):
            return False
        if m[0] == "bin":
            b_int = m[3][0] == "const" and float(m[3][1]).is_integer()
            if not in_domain_bin(m[1], _rv(vals, m[2]), _rv(vals, m[3]), b_int):
                return False
        if isinstance(vals[k], complex) or not (abs(vals[k]) < 2 ** 50):
            return False
    return True


def pick_value_change(model, rng):
    """(measurement id, new central value) that keeps the whole program in its domain, or None"""
    ms = [i for i, m in enumerate(model) if m[0] == "meas"]
    for _ in range(12):
        i = rng.choice(ms)
        new = model[i][1] + rng.choice([0.5, -0.5, 1.0, 0.25, -0.25, 2.0, -1.5])
        if new != model[i][1] and domain_ok(model, {i: new}):
            return i, new
    return None


def with_value(model, i, new):
    out = list(model)
    out[i] = ("meas", float(new), model[i][2])
    return out


def norm_change(ch):
    """[i, new] (older replays: a value change) or [kind, i, new] with kind in {"value", "error"}, or
    ["override", k, new, uncertainty]"""
    return ["value"] + list(ch) if len(ch) == 2 else list(ch)


def pick_override(model, rng, visible):
    """["override", k, new]: the central value of the calculated quantity k is overridden (the library turns k into a
    measurement with that value and its current uncertainty; later results that use k must see the new value)"""
    used = {ref[1] for m in model if m[0] != "meas" for ref in m[2:] if ref[0] == "obj"}
    cands = [k for k in visible if k in used and model[k][0] != "meas"]
    if not cands:
        return None
    try:
        vals = interp(model, len(model) - 1)
    except (ValueError, ZeroDivisionError, OverflowError):
        return None
    for _ in range(8):
        k = rng.choice(cands)
        new = round(vals[k] * 8) / 8 + rng.choice([0.5, -0.5, 1.0, 0.25, -0.25, 2.0, -1.5, 0.0])
        if new == vals[k]:
            continue
        cand = list(model)
        cand[k] = ("meas", float(new), 0.0)
        if domain_ok(cand):
            return ["override", k, new]
    return None


def pick_change(model, rng, corr=(), visible=()):
    """a change of one measurement's central value (inside the domain) or of its uncertainty; uncertainty changes are
    preferred for correlated measurements (the correlation set stays, the covariance term must follow the new uncertainty);
    or the override of the central value of an intermediate calculated quantity"""
    if visible and rng.random() < 0.25:
        ch = pick_override(model, rng, list(visible))
        if ch:
            return ch
    correlated = sorted({i for c in corr for i in c[:2]})
    if correlated and rng.random() < 0.6 or rng.random() < 0.15:
        i = rng.choice(correlated or [k for k, m in enumerate(model) if m[0] == "meas"])
        new = rng.choice([e for e in (0.125, 0.25, 0.5, 1.0, 0.75, 2.0) if e != model[i][2]])
        return ["error", i, new]
    ch = pick_value_change(model, rng)
    return ["value"] + list(ch) if ch else None


def apply_change_model(model, ch):
    ch = norm_change(ch)
    kind, i, new = ch[:3]
    out = list(model)
    if kind == "override":       # ch[3]: the uncertainty the quantity had when it was overridden (observed, see apply_change_impl)
        out[i] = ("meas", float(new), float(ch[3]))
    else:
        out[i] = ("meas", float(new), model[i][2]) if kind == "value" else ("meas", model[i][1], float(new))
    return out


def apply_change_impl(w, ch):
    kind, i, new = norm_change(ch)[:3]
    if kind == "value":
        w.objs[i].value = new
    elif kind == "override":
        with warnings.catch_warnings():
            warnings.simplefilter("ignore")
            err = float(w.objs[i].error)
            w.objs[i].value = new
        ch[3:] = [err]
        w.model[i] = ("meas", float(new), err)       # from now on object i is a measurement (same identity)
    else:
        w.objs[i].error = new


def fd_derivative(model, k, m):
    """Ridders' extrapolated central differences of object k with respect to measurement m; returns (estimate, error
    estimate).  Two independent runs with start steps a factor 1024 apart must agree, otherwise the estimate is declared
    inconclusive (a formula that oscillates faster than the step, e.g. sin(2^30 x), fools a single run)"""
    a1, e1 = _ridders(model, k, m, 2.0 ** -6)
    a2, e2 = _ridders(model, k, m, 2.0 ** -16)
    if not abs(a1 - a2) <= 1e-4 * (abs(a1) + abs(a2)) + 1e-12:
        return a1, float("inf")
    return (a1, e1) if e1 <= e2 else (a2, e2)


def _ridders(model, k, m, h0):
    v = model[m][1]
    h = max(abs(v) / 8, 1.0) * h0
    con, safe, ntab = 1.4, 2.0, 10

    def f(x):
        return interp(model, k, {m: x})[k]
    a = [[0.0] * ntab for _ in range(ntab)]
    a[0][0] = (f(v + h) - f(v - h)) / (2 * h)
    err, ans = float("inf"), a[0][0]
    for i in range(1, ntab):
        h /= con
        a[0][i] = (f(v + h) - f(v - h)) / (2 * h)
        fac = con * con
        for j in range(1, i + 1):
            a[j][i] = (a[j - 1][i] * fac - a[j - 1][i - 1]) / (fac - 1)
            fac *= con * con
            errt = max(abs(a[j][i] - a[j - 1][i]), abs(a[j][i] - a[j - 1][i - 1]))
            if errt <= err:
                err, ans = errt, a[j][i]
        if abs(a[i][i] - a[i - 1][i - 1]) >= safe * err:
            break
    return ans, err


def reachable_measurements(model, k):
    seen, todo = set(), [k]
    while todo:
        i = todo.pop()
        m = model[i]
        if m[0] == "meas":
            seen.add(i)
        else:
            for ref in m[2:]:
                if ref[0] == "obj":
                    todo.append(ref[1])
    return sorted(seen)


def unresolvable(model, k):
    """object k (or something it is built from) applies a transcendental function / variable power to a quantity that
    carries a 2^+-20.. scale factor: finite differences cannot resolve such a formula (sin(2^30 x)), the oracle abstains"""
    scaled, bad = set(), set()
    for j, m in enumerate(model[:k + 1]):
        if m[0] == "meas":
            continue
        refs = [r for r in m[2:] if isinstance(r, (list, tuple))]
        sc = any((r[0] == "obj" and r[1] in scaled) or (r[0] == "const" and r[1] != 0 and not (2.0 ** -20 < abs(r[1]) < 2.0 ** 20))
                 for r in refs)
        if sc:
            scaled.add(j)
        if any(r[0] == "obj" and r[1] in bad for r in refs):
            bad.add(j)
        if (m[0] == "un" and m[1] != "neg" or m[0] == "bin" and m[1] in ("pow", "log2")) and \
                any(r[0] == "obj" and r[1] in scaled for r in refs):
            bad.add(j)
    return k in bad


def oracle_object(model, corr, obs, derivs_only=False):
    """check one observed derived object against the property text; returns None or a description"""
    k = obs["id"]
    if unresolvable(model, k):
        return None
    try:
        f0 = interp(model, k)[k]
    except (ValueError, ZeroDivisionError, OverflowError):
        return None
    vtol = 1e-9 * (abs(f0) + 1)
    if not abs(obs["value"] - f0) <= vtol:
        return "value {} but the formula evaluated at the central values gives {}".format(obs["value"], f0)
    srcs = reachable_measurements(model, k)
    rho = {}
    for i, j, r in effective_corr(corr):
        rho[(min(i, j), max(i, j))] = r
    dref = {}
    for m, d in obs["derivs"]:
        try:
            fd, fderr = fd_derivative(model, k, m) if m in srcs else (0.0, 0.0)
        except (ValueError, ZeroDivisionError, OverflowError):
            return None
        if not fderr <= 1e-6 * (abs(fd) + 1e-3):
            return None        # finite differences inconclusive on this (ill-conditioned) formula
        dref[m] = fd
        if d == 0 and fd != 0 and abs(fd) > 1e6 * fderr and abs(fd) > 1e-30:
            return "derivative with respect to measurement {} is exactly 0 but the formula depends on it (partial derivative {})".format(m, fd)
        tol = 2e-6 * max(abs(fd), abs(d)) + 20 * fderr + 1e-7 * (1 + abs(f0)) / max(1.0, abs(model[m][1]))
        if not abs(fd - d) <= tol:
            return "derivative with respect to measurement {} is {} but the partial derivative of the formula is {}".format(
                m, d, fd)
    if derivs_only:
        return None
    var = 0.0
    for i in srcs:
        var += (dref[i] * model[i][2]) ** 2
    for a in range(len(srcs)):
        for b in range(a + 1, len(srcs)):
            i, j = srcs[a], srcs[b]
            var += 2 * dref[i] * dref[j] * rho.get((i, j), 0.0) * model[i][2] * model[j][2]
    ref_err = math.sqrt(var) if var > 0 else 0.0
    scale = math.sqrt(sum((dref[i] * model[i][2]) ** 2 for i in srcs)) if srcs else 0.0
    if not abs(ref_err - obs["error"]) <= 1e-5 * (scale + abs(ref_err)) + 1e-9 * (1 + abs(f0)):
        # near-total cancellation makes sqrt ill-conditioned: compare variances then
        if not abs(var - obs["error"] ** 2) <= 1e-5 * (scale ** 2) + 1e-12:
            return "uncertainty {} but the propagation law gives {}".format(obs["error"], ref_err)
    return None
