"""Shared harness of C06 / C07: generation of fit cases, running them on the implementation with the
numpy / scipy entry points wrapped so that their arguments and results are RECORDED, encoding for the Coq
case files, and the numpy-free exact references used by the property-level oracles.

(Not a property module: tools/gen_manifest.py only looks at props/c[0-9]*.py.)
"""
import contextlib
import copy
import json
import math
import os
import warnings
from fractions import Fraction as F

from vlib import core
from vlib.coqfmt import qlit, coq_list, coq_bool, coq_option, natlit, zlit

POLY_MODELS = ("linear", "quadratic", "polynomial")
CURVE_MODELS = ("userquad", "exponential", "gaussian")

# user-defined models whose function NAME is that of a pre-set model (or neutral) but whose form / parameter order is not:
# python name of the function, number of parameters, value and slope (numpy-free references)
USER_MODELS = {
    "u_linear": ("linear", 2, lambda x, p: p[0] + p[1] * x, lambda x, p: p[1]),                       # (intercept, slope)
    "u_quadratic": ("quadratic", 2, lambda x, p: p[0] * x * x + p[1], lambda x, p: 2 * p[0] * x),       # a x^2 + c
    "u_polynomial": ("polynomial", 3, lambda x, p: p[0] + p[1] * x + p[2] * x * x,                     # lowest power first
                     lambda x, p: p[1] + 2 * p[2] * x),
    "u_exponential": ("exponential", 2, lambda x, p: p[1] * math.exp(-p[0] * x),                       # (decay, amplitude)
                      lambda x, p: -p[0] * p[1] * math.exp(-p[0] * x)),
    "u_gaussian": ("gaussian", 3,                                                                      # (mean, std, norm)
                   lambda x, p: p[2] / math.sqrt(2 * math.pi * p[1] * p[1]) * math.exp(-(x - p[0]) ** 2 / (2 * p[1] * p[1])),
                   lambda x, p: p[2] / math.sqrt(2 * math.pi * p[1] * p[1]) * math.exp(-(x - p[0]) ** 2 / (2 * p[1] * p[1]))
                   * (-(x - p[0]) / (p[1] * p[1]))),
    "u_model4": ("model4", 4, lambda x, p: p[0] + p[1] * x + p[2] * x ** 2 + p[3] * x ** 3,
                 lambda x, p: p[1] + 2 * p[2] * x + 3 * p[3] * x ** 2),
    "u_model5": ("model5", 5, lambda x, p: p[0] + p[1] * x + p[2] * x ** 2 + p[3] * x ** 3 + p[4] * x ** 4,
                 lambda x, p: p[1] + 2 * p[2] * x + 3 * p[3] * x ** 2 + 4 * p[4] * x ** 3),
}


MODEL_TEXT = {
    "u_linear": "linear(x, intercept, slope) = intercept + slope*x", "u_quadratic": "quadratic(x, a, c) = a*x**2 + c",
    "u_polynomial": "polynomial(x, c0, c1, c2) = c0 + c1*x + c2*x**2",
    "u_exponential": "exponential(x, decay, amplitude) = amplitude*exp(-decay*x)",
    "u_gaussian": "gaussian(x, mean, std, norm) = norm/sqrt(2 pi std^2) exp(-(x-mean)^2/(2 std^2))",
    "u_model4": "model4(x, a, b, c, d) = a + b*x + c*x**2 + d*x**3",
    "u_model5": "model5(x, a, b, c, d, e) = a + b*x + c*x**2 + d*x**3 + e*x**4", "userquad": "user_quad(x, a, b) = a*x**2 + b*x",
}


def describe_model(case):
    m = case["model"]
    if m in MODEL_TEXT:
        return "user-defined {} {}".format("lambda named" if case.get("as_lambda") else "function", MODEL_TEXT[m])
    return "pre-set model " + m


def make_user_model(name, as_lambda=False):
    """the Python callable handed to q.fit (works on arrays and on QExPy values)"""
    q = _q()
    if name == "u_linear":
        def linear(x, intercept, slope):
            return intercept + slope * x
        f, g = linear, (lambda x, intercept, slope: intercept + slope * x)
    elif name == "u_quadratic":
        def quadratic(x, a, c):
            return a * x ** 2 + c
        f, g = quadratic, (lambda x, a, c: a * x ** 2 + c)
    elif name == "u_polynomial":
        def polynomial(x, c0, c1, c2):
            return c0 + c1 * x + c2 * x ** 2
        f, g = polynomial, (lambda x, c0, c1, c2: c0 + c1 * x + c2 * x ** 2)
    elif name == "u_exponential":
        def exponential(x, decay, amplitude):
            return amplitude * q.exp(-decay * x)
        f, g = exponential, (lambda x, decay, amplitude: amplitude * q.exp(-decay * x))
    elif name == "u_gaussian":
        def gaussian(x, mean, std, norm):
            return norm / q.sqrt(2 * math.pi * std ** 2) * q.exp(-(x - mean) ** 2 / (2 * std ** 2))
        f, g = gaussian, (lambda x, mean, std, norm: norm / q.sqrt(2 * math.pi * std ** 2) * q.exp(-(x - mean) ** 2 / (2 * std ** 2)))
    elif name == "u_model4":
        def model4(x, a, b, c, d):
            return a + b * x + c * x ** 2 + d * x ** 3
        f, g = model4, (lambda x, a, b, c, d: a + b * x + c * x ** 2 + d * x ** 3)
    elif name == "u_model5":
        def model5(x, a, b, c, d, e):
            return a + b * x + c * x ** 2 + d * x ** 3 + e * x ** 4
        f, g = model5, (lambda x, a, b, c, d, e: a + b * x + c * x ** 2 + d * x ** 3 + e * x ** 4)
    else:
        raise ValueError(name)
    if as_lambda:
        g.__name__ = USER_MODELS[name][0]        # a lambda bound to a name, e.g. by functools.wraps or by hand
        g.__qualname__ = USER_MODELS[name][0]
        return g
    return f

MODES = ("lists", "arrays", "marray", "marray_kwerr", "dataset", "dataset_method", "dataset_kw", "plot_fit", "kwargs")
NUMTYPES = ("int", "np.int32", "np.float32", "np.float64", "Fraction", "array-int64", "array-float32")
PARNAME_POOL = ("a", "b", "slope", "intercept", "k", "a", "amplitude", "mean", "x")
EXN = {"ValueError": "EValue", "TypeError": "EType"}


def _q():
    import qexpy as q
    return q


def exn_class(e):
    if e is None:
        return None
    for cls in type(e).__mro__:
        if cls.__name__ in EXN:
            return EXN[cls.__name__]
    return "EOther"


# =============================================================================================================
# exact / numpy-free references
# =============================================================================================================
def frac(x):
    return F(x)


def exact_polyfit(xs, ys, ws, d):
    """weighted least squares in Fractions: parameters highest power first, inverse of A^T W A, chi2_min.
    ws multiply the residuals (like numpy.polyfit's w).  Returns None when the normal matrix is singular."""
    n = d + 1
    xs, ys, ws = [F(x) for x in xs], [F(y) for y in ys], [F(w) for w in ws]
    M = [[sum(w * w * x ** ((d - k) + (d - l)) for x, w in zip(xs, ws)) for l in range(n)] for k in range(n)]
    b = [sum(w * w * y * x ** (d - k) for x, y, w in zip(xs, ys, ws)) for k in range(n)]
    A = [M[k][:] + [b[k]] + [F(int(k == l)) for l in range(n)] for k in range(n)]
    for c in range(n):
        piv = next((r for r in range(c, n) if A[r][c] != 0), None)
        if piv is None:
            return None
        A[c], A[piv] = A[piv], A[c]
        pv = A[c][c]
        A[c] = [a / pv for a in A[c]]
        for r in range(n):
            if r != c and A[r][c] != 0:
                f = A[r][c]
                A[r] = [a - f * bb for a, bb in zip(A[r], A[c])]
    p = [A[k][n] for k in range(n)]
    inv = [A[k][n + 1:] for k in range(n)]
    chi2 = sum((w * (y - peval(p, x))) ** 2 for x, y, w in zip(xs, ys, ws))
    return p, inv, chi2


def peval(cs, x):
    """sum c_i x^(d-i) written as an explicit power sum (NOT Horner), exact for Fractions"""
    d = len(cs) - 1
    return sum(c * x ** (d - i) for i, c in enumerate(cs))


def ref_model(name, params, x):
    """reference value of the fitted model at x (numpy-free)"""
    if name in POLY_MODELS:
        return float(peval([float(p) for p in params], float(x)))
    if name in USER_MODELS:
        return USER_MODELS[name][2](x, params)
    if name == "userquad":
        a, b = params
        return a * x * x + b * x
    if name == "exponential":
        c, a = params
        return c * math.exp(-a * x)
    if name == "gaussian":
        norm, mean, std = params
        return norm / math.sqrt(2 * math.pi * std * std) * math.exp(-(x - mean) ** 2 / (2 * std * std))
    raise ValueError(name)


def ref_slope(name, params, x):
    """analytic d/dx of the reference model"""
    if name in USER_MODELS:
        return USER_MODELS[name][3](x, params)
    if name in POLY_MODELS:
        d = len(params) - 1
        return float(sum((d - i) * float(c) * float(x) ** (d - i - 1) for i, c in enumerate(params) if d - i >= 1))
    if name == "userquad":
        a, b = params
        return 2 * a * x + b
    if name == "exponential":
        c, a = params
        return -a * c * math.exp(-a * x)
    if name == "gaussian":
        norm, mean, std = params
        return ref_model(name, params, x) * (-(x - mean) / (std * std))
    raise ValueError(name)


LINEAR_IN_PARAMS = POLY_MODELS + ("userquad", "u_linear", "u_quadratic", "u_polynomial", "u_model4", "u_model5")


def ref_grad(name, params, x, rel=1e-6):
    """gradient of the reference model with respect to the parameters.  Models that are linear in their parameters: the
    k-th basis function, exactly (no step, so a fitted parameter that happens to be ~0 next to values of 1e9 is no
    problem); the others: central differences with Richardson extrapolation, step relative to the parameter"""
    if name in LINEAR_IN_PARAMS:
        n = len(params)
        return [ref_model(name, [1.0 if j == k else 0.0 for j in range(n)], x) for k in range(n)]
    g = []
    for k in range(len(params)):
        h = rel * (abs(params[k]) or 1.0)

        def at(t):
            p = list(params)
            p[k] = params[k] + t
            return ref_model(name, p, x)
        d1 = (at(h) - at(-h)) / (2 * h)
        d2 = (at(2 * h) - at(-2 * h)) / (4 * h)
        g.append((4 * d1 - d2) / 3)
    return g


def mat_inv(m):
    n = len(m)
    A = [list(map(float, m[i])) + [float(i == j) for j in range(n)] for i in range(n)]
    for c in range(n):
        piv = max(range(c, n), key=lambda r: abs(A[r][c]))
        if A[piv][c] == 0:
            return None
        A[c], A[piv] = A[piv], A[c]
        pv = A[c][c]
        A[c] = [a / pv for a in A[c]]
        for r in range(n):
            if r != c:
                f = A[r][c]
                A[r] = [a - f * b for a, b in zip(A[r], A[c])]
    return [row[n:] for row in A]


# =============================================================================================================
# cases
# =============================================================================================================
def dy8(rng, lo, hi):
    """a dyadic number k/8 in [lo, hi]"""
    return rng.randrange(int(lo * 8), int(hi * 8) + 1) / 8.0


def gen_err_pattern(rng, n, allow_none=True):
    r = rng.random()
    if allow_none and r < 0.3:
        return None
    if r < 0.55:
        return rng.randrange(1, 17) / 8.0
    return [rng.randrange(1, 25) / 8.0 for _ in range(n)]


def gen_xs(rng, n, lo=-6, hi=6):
    grid = [i / 2.0 for i in range(int(lo * 2), int(hi * 2) + 1)]
    if rng.random() < 0.3:
        grid = [float(i) for i in range(int(lo), int(hi) + 1)] if hi - lo + 1 >= n else grid
    return rng.sample(grid, n)          # distinct, NOT sorted


def nparams_of(case):
    if case["model"] == "linear":
        return 2
    if case["model"] == "quadratic":
        return 3
    if case["model"] == "polynomial":
        return case["deg"] + 1
    if case["model"] in USER_MODELS:
        return USER_MODELS[case["model"]][1]
    return {"userquad": 2, "exponential": 2, "gaussian": 3}[case["model"]]


def points(case):
    """the data set the call describes: (x, xerr, y, yerr) per point"""
    n = len(case["xs"])

    def arr(e):
        if e is None:
            return [0.0] * n
        if isinstance(e, list):
            return [float(v) for v in e]
        return [float(e)] * n
    return list(zip(case["xs"], arr(case["xerr"]), case["ys"], arr(case["yerr"])))


def in_range_ref(case, x):
    """reference reading of the property text: low <= x < high"""
    xr = case["xrange"]
    if xr is None or xr == "empty_tuple" or xr == "empty_list":
        return True
    return xr[0] <= x < xr[1]


def in_domain(case):
    """the quantifier of C06 / C07: inside the fitted range the y-uncertainties are all zero or all positive
    (a mix hands infinite weights to LAPACK, which may not even return), x-uncertainties likewise sane"""
    if case.get("malformed"):
        return True
    try:
        sel = [p for p in points(case) if in_range_ref(case, p[0])]
    except TypeError:
        return True
    pos = [p[3] > 0 for p in sel]
    if any(pos) and not all(pos):
        return False
    if len(set(case["xs"])) != len(case["xs"]):
        return False
    return all(math.isfinite(v) and v >= 0 for p in points(case) for v in (p[1], p[3]))


def gen_xrange(rng, xs, nparams, valid=True):
    """an x-range whose bounds sit on data values (boundary!) or between them"""
    s = sorted(xs)
    for _ in range(50):
        i, j = sorted(rng.sample(range(len(s) + 1), 2))
        lo = s[i] if i < len(s) and rng.random() < 0.6 else (s[i - 1] + s[i]) / 2 if 0 < i < len(s) else s[0] - 1 if i == 0 else s[-1] + 1
        hi = s[j] if j < len(s) and rng.random() < 0.6 else (s[j - 1] + s[j]) / 2 if 0 < j < len(s) else s[-1] + 1
        if lo > hi:
            continue
        nsel = sum(1 for x in xs if lo <= x < hi)
        if not valid or nsel >= nparams + 1:
            return [lo, hi]
    return None


def large_x_data(rng, family, deg, n):
    grid = {"0..1000": range(0, 1001, 5), "+-5000": range(-5000, 5001, 25), "+-1e5": range(-100000, 100001, 500)}[family]
    xs = [float(x) for x in rng.sample(list(grid), n)]
    big = max(abs(x) for x in xs) or 1.0
    # every term contributes about [big] at the edge of the range
    truth = [rng.choice([-1, 1]) * (rng.randrange(4, 17) / 8.0) * big / big ** (deg - i) for i in range(deg + 1)]
    ys = [float(round((peval(truth, x) + rng.uniform(-0.2, 0.2) * big) * 16) / 16) for x in xs]
    return xs, ys


def gen_poly_case(rng, malformed=False):
    model = rng.choice(POLY_MODELS + ("polynomial",))
    deg = {"linear": 1, "quadratic": 2}.get(model) or rng.choice([1, 2, 3, 3, 4, 5])
    npar = deg + 1
    k = rng.randrange(0, 6)            # n = p + 1 (one degree of freedom) is the smallest fit numpy accepts with cov=True
    use_range = rng.random() < 0.45
    n = npar + 1 + k + (rng.randrange(1, 5) if use_range else 0)
    n = min(n, 14)
    xs = gen_xs(rng, n)
    truth = [dy8(rng, -2, 2) / (1 + i) for i in range(npar)]
    noise = rng.choice([0.5, 1.0, 4.0])
    ys = [float(round((peval(truth, x) + rng.uniform(-noise, noise)) * 16) / 16) for x in xs]
    large = None
    if deg >= 3 and model == "polynomial" and rng.random() < 0.3:
        # LARGE |x| (a wavelength in nm, a time in ms ...): the columns x^d .. x^0 of the design matrix differ by many
        # orders of magnitude; the reference is exact arithmetic, numpy.polyfit meets 1e-12 sigma on these inputs
        large = rng.choice(["0..1000", "+-5000"] + (["+-1e5"] if deg == 3 else []))
        xs, ys = large_x_data(rng, large, deg, n)
    case = {"kind": "poly", "model": model, "deg": deg, "designator": rng.choice(["str", "enum"]), "large_x": large,
            "degrees_kw": not (model == "polynomial" and deg == 3 and rng.random() < 0.5),
            "xs": xs, "ys": ys, "xerr": None if rng.random() < 0.7 else gen_err_pattern(rng, n),
            "yerr": gen_err_pattern(rng, n), "xrange": None, "mode": rng.choice(MODES)}
    if use_range and not large:
        # (no x-range on large-|x| data: a narrow window far from the origin measures numpy.polyfit's own accuracy)
        case["xrange"] = gen_xrange(rng, xs, npar)
    elif rng.random() < 0.1:
        case["xrange"] = rng.choice(["empty_tuple", "empty_list"])
    if rng.random() < 0.5:
        case["xrange_type"] = "list"
    add_dimensions(rng, case)
    if case["mode"] == "plot_fit" and case["xrange"] is not None:
        case["mode"] = "dataset_kw"
    if rng.random() < 0.2:
        # the same data in other units (y and sigma_y times 2^-30 ~ 1e-9, 2^-40 ~ 1e-12 or 2^30 ~ 1e9)
        k = rng.choice([2.0 ** -30, 2.0 ** -40, 2.0 ** 30])
        case["ys"] = [y * k for y in case["ys"]]
        case["yscale"] = k
        if case["yerr"] is not None:
            case["yerr"] = [e * k for e in case["yerr"]] if isinstance(case["yerr"], list) else case["yerr"] * k
    if isinstance(case["yerr"], list) and rng.random() < 0.15:
        i = rng.randrange(n)
        case["yerr"][i] = case["yerr"][i] / 64.0          # one much smaller uncertainty among ordinary ones
    if not malformed and not large and rng.random() < 0.1:
        add_repeat(rng, case)
    if malformed:
        what = rng.choice(["lo>hi", "badlen", "nonreal", "few", "empty", "toofew_all"])
        case["malformed"] = what
        if what == "lo>hi":
            case["xrange"] = [max(xs), min(xs)]
        elif what == "badlen":
            case["xrange"] = "badlen"
        elif what == "nonreal":
            case["xrange"] = "nonreal"
        elif what == "few":
            s = sorted(xs)
            m = rng.randrange(1, npar + 1)
            case["xrange"] = [s[0], s[m]]          # exactly m points: s[0] .. s[m-1]
        elif what == "empty":
            v = rng.choice(xs)
            case["xrange"] = [v, v]
        else:
            case["xs"], case["ys"] = xs[:npar], ys[:npar]
            for key in ("xerr", "yerr"):
                if isinstance(case[key], list):
                    case[key] = case[key][:npar]
            case["xrange"] = None
    return case


def add_dimensions(rng, case):
    """recurring blind spots: order of the data, number types, parameter names (equal names too), data that were read /
    used in arithmetic before the fit"""
    r = rng.random()
    if r < 0.12 or r > 0.94:
        order = sorted(range(len(case["xs"])), key=lambda i: case["xs"][i], reverse=r > 0.94)
        for key in ("xs", "ys", "xerr", "yerr"):
            if isinstance(case.get(key), list):
                case[key] = [case[key][i] for i in order]
        case["order"] = "descending" if r > 0.94 else "ascending"
    if case["kind"] == "poly" and rng.random() < 0.25:
        case["numtype"] = rng.choice(NUMTYPES)
    if rng.random() < 0.2:
        npar = nparams_of(case)
        case["parnames"] = [rng.choice(PARNAME_POOL) for _ in range(npar)]      # equal names happen
    if rng.random() < 0.2:
        case["preread"] = True


def convert_numbers(case, values):
    """the numbers in another Python / numpy type, when every one of them is exactly representable there"""
    import numpy as np
    from fractions import Fraction
    t = case.get("numtype")
    if t is None or values is None:
        return values
    scalar = not isinstance(values, list)
    vals = [values] if scalar else list(values)
    try:
        if t == "int":
            out = [int(v) for v in vals]
        elif t == "np.int32":
            out = [np.int32(v) for v in vals]
        elif t == "np.float32":
            out = [np.float32(v) for v in vals]
        elif t == "np.float64":
            out = [np.float64(v) for v in vals]
        elif t == "Fraction":
            out = [Fraction(v) for v in vals]
        elif t == "array-int64":
            out = np.array(vals, dtype=np.int64) if not scalar else [int(vals[0])]
        else:
            out = np.array(vals, dtype=np.float32) if not scalar else [np.float32(vals[0])]
        if any(float(o) != float(v) for o, v in zip(out, vals)):
            return values
    except (ValueError, TypeError, OverflowError):
        return values
    return out[0] if scalar else out


def minimal_family():
    """a small deterministic family that every run covers before the random stream: each model with exactly p + 1 and
    p + 2 points (p parameters), without and with per-point y-uncertainties"""
    xgrid = [0.0, 1.0, -1.0, 2.0, -2.0, 3.0, -3.0, 0.5, -1.5]
    wiggle = [0.5, -0.75, 0.25, 1.0, -0.5, 0.75, -1.0, 0.375, -0.625]
    sig = [0.5, 1.0, 0.25, 2.0, 0.75, 1.5, 0.375, 1.25, 0.625]
    out = []
    for deg in (1, 2, 3, 4):
        for model in ((["linear"] if deg == 1 else ["quadratic"] if deg == 2 else []) + ["polynomial"]):
            for extra in (1, 2):
                n = deg + 1 + extra
                truth = [0.25, -0.5, 1.0, -1.5, 2.0][:deg + 1]
                for weighted in (False, True):
                    xs = xgrid[:n]
                    ys = [peval(truth, x) + 2 * wiggle[i] for i, x in enumerate(xs)]
                    c = {"kind": "poly", "model": model, "deg": deg, "designator": "str", "degrees_kw": True, "xs": xs, "ys": ys,
                         "xerr": None, "yerr": sig[:n] if weighted else None, "xrange": None, "mode": "lists",
                         "family": "minimal"}
                    if well_posed_poly(c):
                        out.append(c)
    lrng = __import__("random").Random(20260930)
    for family, deg in (("+-5000", 5), ("+-5000", 4), ("0..1000", 5), ("0..1000", 4), ("+-1e5", 3), ("+-5000", 3)):
        for weighted in (False, True):
            n = deg + 4
            xs, ys = large_x_data(lrng, family, deg, n)
            c = {"kind": "poly", "model": "polynomial", "deg": deg, "designator": "str", "degrees_kw": True, "xs": xs, "ys": ys,
                 "xerr": None, "yerr": [abs(y) / 16 + 1 for y in ys] if weighted else None, "xrange": None, "mode": "lists",
                 "family": "minimal", "large_x": family}
            if well_posed_poly(c):
                out.append(c)
    truths = {"userquad": [1.5, -2.0], "exponential": [4.0, 0.5], "gaussian": [6.0, 0.5, 1.25], "u_linear": [1.5, 2.5],
              "u_quadratic": [0.75, -2.0], "u_polynomial": [1.0, -0.5, 0.25], "u_exponential": [0.5, 4.0],
              "u_gaussian": [0.5, 1.25, 6.0], "u_model4": [1.0, 2.0, -0.75, 0.25]}
    for model, truth in truths.items():
        for extra in (1, 2):
            n = len(truth) + extra
            xs = [x + 2.0 for x in xgrid[:n]] if "exponential" in model else xgrid[:n]
            scale = max(abs(ref_model(model, truth, x)) for x in xs)
            for weighted in (False, True):
                ys = [ref_model(model, truth, x) + 0.02 * scale * wiggle[i] for i, x in enumerate(xs)]
                out.append({"kind": "curve", "model": model, "truth": truth, "guess": [t * 1.04 for t in truth], "noise_free": False,
                            "as_lambda": False, "xs": xs, "ys": ys, "xerr": None,
                            "yerr": [0.05 * scale * e for e in sig[:n]] if weighted else None, "xrange": None, "mode": "lists",
                            "family": "minimal"})
    return out


def well_posed_poly(case):
    """reject data that the polynomial fits (almost) exactly: the covariance would be rounding noise"""
    pts = [p for p in points(case) if in_range_ref(case, p[0])]
    if len(pts) <= case["deg"] + 1:
        return False
    ws = [1 / F(p[3]) if any(q[3] > 0 for q in pts) else F(1) for p in pts]
    r = exact_polyfit([p[0] for p in pts], [p[2] for p in pts], ws, case["deg"])
    if r is None:
        return False
    tot = sum((w * F(p[2])) ** 2 for w, p in zip(ws, pts))
    return r[2] * 1000 >= tot and tot > 0


def scale_params(model, params, k):
    """parameters of k * f(x; params)"""
    if model in ("exponential",):
        idx = [0]
    elif model == "gaussian":
        idx = [0]
    elif model == "u_exponential":
        idx = [1]
    elif model == "u_gaussian":
        idx = [2]
    else:                       # linear in all parameters
        idx = range(len(params))
    return [p * k if i in idx else p for i, p in enumerate(params)]


def gen_curve_case(rng, noise_free=False, model=None, yscale=None):
    model = model or (rng.choice(CURVE_MODELS) if rng.random() < 0.6 else rng.choice(sorted(USER_MODELS)))
    if model in ("u_linear", "u_quadratic", "u_polynomial", "u_model4", "u_model5"):
        npar = USER_MODELS[model][1]
        truth = [rng.choice([-1, 1]) * dy8(rng, 0.5, 3) / (1 + i) ** 2 for i in range(npar)]
        if model == "u_quadratic":
            truth = [rng.choice([-1, 1]) * dy8(rng, 0.5, 1.5), rng.choice([-1, 1]) * dy8(rng, 1, 4)]
        n = rng.randrange(npar + 3, npar + 8)
        xs = gen_xs(rng, n, -3, 3) if npar >= 4 else gen_xs(rng, n, -4, 4)
    elif model == "u_exponential":
        truth = [dy8(rng, 0.25, 1.5), dy8(rng, 1, 8)]
        n = rng.randrange(5, 10)
        xs = gen_xs(rng, n, 0, 4)
    elif model == "u_gaussian":
        truth = [rng.choice([-1, 1]) * dy8(rng, 0.125, 1), dy8(rng, 0.75, 2), dy8(rng, 2, 10)]
        n = rng.randrange(7, 12)
        xs = gen_xs(rng, n, -4, 4)
    elif model == "userquad":
        truth = [rng.choice([-1, 1]) * dy8(rng, 0.5, 2), dy8(rng, -3, 3)]
        n = rng.randrange(4, 10)
        xs = gen_xs(rng, n, -4, 4)
    elif model == "exponential":
        truth = [dy8(rng, 1, 8), dy8(rng, 0.25, 1.5)]
        n = rng.randrange(5, 10)
        xs = gen_xs(rng, n, 0, 4)
    else:
        truth = [dy8(rng, 2, 10), dy8(rng, -1, 1), dy8(rng, 0.75, 2)]
        n = rng.randrange(7, 12)
        xs = gen_xs(rng, n, -4, 4)
    # no generating parameter at (or next to) zero: MINPACK's forward-difference step is relative to |p|, so scipy's
    # covariance is numerical noise when an optimum is ~1e-9 instead of exactly 0 (a limit of the oracle, not of QExPy)
    truth = [t if abs(t) >= 0.125 else 0.25 for t in truth]
    # the same physics in other units: y (and with it sigma_y and the parameters that carry the unit of y) times 2^-30
    # (~1e-9, e.g. nA written in A) or 2^30; nothing in the property depends on the magnitude of the numbers
    yscale = rng.choice([1.0, 1.0, 1.0, 2.0 ** -30, 2.0 ** 30]) if yscale is None else yscale
    truth = scale_params(model, truth, yscale)
    scale = max(abs(ref_model(model, truth, x)) for x in xs) or 1.0
    amp = 0.0 if noise_free else scale * rng.choice([0.01, 0.03])
    ys = [ref_model(model, truth, x) + (rng.randrange(-8, 9) / 8.0) * amp for x in xs]
    guess = [t * (1 + rng.choice([-1, 1]) * 0.05) if t else 0.05 for t in truth]
    case = {"kind": "curve", "model": model, "truth": truth, "guess": guess, "noise_free": noise_free, "yscale": yscale,
            "as_lambda": model in USER_MODELS and rng.random() < 0.4,
            "xs": xs, "ys": ys, "xerr": gen_err_pattern(rng, n) if rng.random() < 0.65 else None,
            "yerr": gen_err_pattern(rng, n), "xrange": None, "mode": rng.choice(MODES)}
    if isinstance(case["xerr"], (float, list)):
        # keep x-uncertainties small against the spacing, as a physical data set would
        f = 0.125
        case["xerr"] = [e * f for e in case["xerr"]] if isinstance(case["xerr"], list) else case["xerr"] * f
    if isinstance(case["yerr"], (float, list)):
        f = scale / 16.0
        f = 2.0 ** round(math.log2(f)) if f > 0 else 1.0
        case["yerr"] = [e * f for e in case["yerr"]] if isinstance(case["yerr"], list) else case["yerr"] * f
    if case["yerr"] is None and case["xerr"] is not None:
        # sigma would be |xerr * slope| only: keep away from stationary points of the curve
        if any(abs(ref_slope(model, truth, x)) < 0.05 * scale for x in xs):
            case["yerr"] = scale / 16.0
    if rng.random() < 0.25 and n >= nparams_of(case) + 4:
        case["xrange"] = gen_xrange(rng, xs, nparams_of(case) + 2)   # curve fits keep two spare points inside the range (the optimiser is an oracle)
    add_dimensions(rng, case)
    if case["mode"] == "plot_fit" and case["xrange"] is not None:
        case["mode"] = "dataset_kw"
    if rng.random() < 0.1:
        add_repeat(rng, case)
    return case


# =============================================================================================================
# running a case on the implementation, with recording wrappers
# =============================================================================================================
def user_quad(x, a, b):
    return a * x ** 2 + b * x


class Recorder:
    def __init__(self):
        self.polyfit, self.curve_fit, self.deriv = [], [], []
        self.result_args = []        # what fit_to_xy_dataset hands to XYFitResult: parameter objects, reported matrix


@contextlib.contextmanager
def recording(rec):
    """wrap numpy.polyfit, scipy.optimize.curve_fit and qexpy.utils.numerical_derivative where fitting.py looks them up"""
    import numpy as np
    import qexpy.fitting.fitting as ff
    o_poly, o_curve, o_deriv = ff.np.polyfit, ff.opt.curve_fit, ff.utils.numerical_derivative

    def polyfit(x, y, deg, *a, **kw):
        w = kw.get("w")
        if w is not None and not np.all(np.isfinite(w)):
            # LAPACK may never return on infinite weights; numpy raises LinAlgError (a ValueError) when it does
            raise np.linalg.LinAlgError("non-finite weights handed to polyfit (harness guard)")
        out = o_poly(x, y, deg, *a, **kw)
        rec.polyfit.append({"x": [float(v) for v in x], "y": [float(v) for v in y], "deg": int(deg),
                            "w": None if w is None else [float(v) for v in w], "cov_kw": kw.get("cov"),
                            "popt": [float(v) for v in out[0]], "pcov": [[float(v) for v in r] for r in out[1]]})
        return out

    def curve_fit(f, xdata, ydata, *a, **kw):
        out = o_curve(f, xdata, ydata, *a, **kw)
        sigma = kw.get("sigma")
        if sigma is not None and np.ndim(sigma) == 0:
            sigma = [float(sigma)] * len(xdata)
        rec.curve_fit.append({"x": [float(v) for v in xdata], "y": [float(v) for v in ydata],
                              "p0": None if kw.get("p0") is None else [float(v) for v in kw["p0"]],
                              "sigma": None if sigma is None else [float(v) for v in sigma],
                              "absolute_sigma": bool(kw.get("absolute_sigma", False)),
                              "popt": [float(v) for v in out[0]], "pcov": [[float(v) for v in r] for r in out[1]]})
        return out

    def numerical_derivative(function, x0, *a, **kw):
        out = o_deriv(function, x0, *a, **kw)
        rec.deriv.append({"x0": [float(v) for v in np.atleast_1d(x0)], "out": [float(v) for v in np.atleast_1d(out)]})
        return out

    o_init = ff.XYFitResult.__init__

    def init(self, **kw):
        # (the class itself stays in place: other modules test isinstance(result, XYFitResult))
        rec.result_args.append({"params": kw.get("res_params"), "pcorr": kw.get("pcorr")})
        return o_init(self, **kw)

    ff.np.polyfit, ff.opt.curve_fit, ff.utils.numerical_derivative = polyfit, curve_fit, numerical_derivative
    ff.XYFitResult.__init__ = init
    try:
        yield rec
    finally:
        ff.np.polyfit, ff.opt.curve_fit, ff.utils.numerical_derivative = o_poly, o_curve, o_deriv
        ff.XYFitResult.__init__ = o_init


def model_arg(case):
    q = _q()
    m = case["model"]
    if m in USER_MODELS:
        return make_user_model(m, case.get("as_lambda", False))
    if m == "userquad":
        return user_quad
    if case.get("designator") == "enum":
        return {"linear": q.FitModel.LINEAR, "quadratic": q.FitModel.QUADRATIC, "polynomial": q.FitModel.POLYNOMIAL,
                "exponential": q.FitModel.EXPONENTIAL, "gaussian": q.FitModel.GAUSSIAN}[m]
    return m


def xrange_arg(case):
    xr = case["xrange"]
    if xr is None:
        return None
    if xr == "empty_tuple":
        return ()
    if xr == "empty_list":
        return []
    if xr == "badlen":
        return (1.0, 2.0, 3.0)
    if xr == "nonreal":
        return ("a", 1.0)
    return list(xr) if case.get("xrange_type") == "list" else tuple(xr)


def call_fit(case):
    """perform the fit the case describes, passing the data the way case["mode"] says"""
    import numpy as np
    q = _q()
    kw = {}
    if case["kind"] == "poly" and case["model"] == "polynomial" and case.get("degrees_kw", True):
        kw["degrees"] = case["deg"]
    if case["kind"] == "curve":
        kw["parguess"] = list(case["guess"])
    if case["xrange"] is not None:
        kw["xrange"] = xrange_arg(case)
    if case.get("parnames"):
        kw["parnames"] = list(case["parnames"])
    xs, ys = convert_numbers(case, list(case["xs"])), convert_numbers(case, list(case["ys"]))
    xerr, yerr = convert_numbers(case, case["xerr"]), convert_numbers(case, case["yerr"])
    if isinstance(kw.get("xrange"), (tuple, list)) and len(kw["xrange"]) == 2 and case.get("numtype") \
            and not isinstance(kw["xrange"][0], str):
        kw["xrange"] = type(kw["xrange"])(convert_numbers(case, [float(v) for v in kw["xrange"]]))
    model = model_arg(case)
    mode = case["mode"]
    aslist = (lambda v: v if isinstance(v, np.ndarray) else list(v))

    def errkw():
        e = {}
        if xerr is not None:
            e["xerr"] = aslist(xerr) if isinstance(xerr, (list, np.ndarray)) else xerr
        if yerr is not None:
            e["yerr"] = aslist(yerr) if isinstance(yerr, (list, np.ndarray)) else yerr
        return e

    def preread(*objs):
        """the data are looked at / used before they are fitted"""
        if case.get("preread"):
            for o in objs:
                _ = str(o)
                if hasattr(o, "values"):
                    _ = o.values, o.errors, o.mean(), (o * 2 + 1)[0].value
                if hasattr(o, "xdata"):
                    _ = str(o.xdata), o.xvalues, o.yerr, (o.xdata + o.ydata)[0].error
    if mode == "lists":
        return q.fit(aslist(xs), aslist(ys), model, **errkw(), **kw)
    if mode == "arrays":
        e = {k: (np.array(v) if isinstance(v, list) else v) for k, v in errkw().items()}
        return q.fit(np.array(xs), np.array(ys), model, **e, **kw)
    if mode == "marray":
        xa = q.MeasurementArray(aslist(xs), xerr) if xerr is not None else q.MeasurementArray(aslist(xs))
        ya = q.MeasurementArray(aslist(ys), yerr) if yerr is not None else q.MeasurementArray(aslist(ys))
        preread(xa, ya)
        return q.fit(xa, ya, model, **kw)
    if mode == "marray_kwerr":
        # MeasurementArrays created without uncertainties, the uncertainties given to fit()
        xa, ya = q.MeasurementArray(aslist(xs)), q.MeasurementArray(aslist(ys))
        preread(xa, ya)
        return q.fit(xa, ya, model, **errkw(), **kw)
    if mode == "dataset":
        ds = q.XYDataSet(aslist(xs), aslist(ys), **errkw())
        preread(ds)
        return q.fit(ds, model, **kw)
    if mode == "dataset_method":
        ds = q.XYDataSet(xdata=aslist(xs), ydata=aslist(ys), **errkw())
        preread(ds)
        return ds.fit(model, **kw)
    if mode == "dataset_kw":
        ds = q.XYDataSet(aslist(xs), aslist(ys), **errkw())
        preread(ds)
        return q.fit(dataset=ds, model=model, **kw)
    if mode == "plot_fit":
        # the fit entry point of a figure: fits the last data set added to the plot
        import qexpy.plotting as qplt
        import matplotlib.pyplot as pyplot
        fig = qplt.plot(aslist(xs), aslist(ys), **errkw())
        try:
            return fig.fit(model=model, **kw)
        finally:
            pyplot.close("all")
    if mode == "kwargs":
        return q.fit(xdata=aslist(xs), ydata=aslist(ys), model=model, **errkw(), **kw)
    raise ValueError(mode)


def finite(v):
    if isinstance(v, (list, tuple)):
        return all(finite(x) for x in v)
    return v is None or isinstance(v, (bool, str)) or (isinstance(v, (int, float)) and math.isfinite(v))


def run_case(case, observe_result=False):
    """returns obs = {"exn", "exn_text", "rec": {...}, "params", "errs", "result": {...}}; for data sets built from repeated
    measurements obs["eff_case"] is the case with the values / uncertainties the data objects actually report"""
    if case.get("repeat"):
        return run_repeated(case, observe_result)
    return run_call(lambda: call_fit(case), case, observe_result)


REPEAT_OFFSETS = {3: [-1.0, 0.0, 1.0], 4: [-1.0, 1.0, -0.5, 0.5], 5: [-1.0, -0.5, 0.0, 0.5, 1.0]}


def add_repeat(rng, case):
    """the y points (sometimes the x points too) are REPEATED measurements q.Measurement([...]): their uncertainty in use is
    the error on the mean, which differs from their sample standard deviation"""
    n = len(case["xs"])
    ymag = max(abs(y) for y in case["ys"]) or 1.0
    unit = 2.0 ** round(math.log2(ymag / 16.0))

    def samples(center, spread):
        off = REPEAT_OFFSETS[rng.choice([3, 4, 4, 5])]
        return [center + spread * o for o in off]
    rep = {"y": [samples(y, unit * rng.randrange(1, 17) / 8.0) for y in case["ys"]], "x": None,
           "holder": rng.choice(["lists", "marray", "dataset"])}
    if case["kind"] == "curve" and rng.random() < 0.4:
        rep["x"] = [samples(x, rng.randrange(1, 9) / 64.0) for x in case["xs"]]
    case["repeat"] = rep
    case["mode"] = "lists"
    for key in ("numtype", "preread", "plot"):
        case.pop(key, None)
    # what the data objects will report (approximately; the run reads the exact numbers off the objects)
    def err_on_mean(v):
        m = sum(v) / len(v)
        return math.sqrt(sum((t - m) ** 2 for t in v) / (len(v) - 1)) / math.sqrt(len(v))
    case["yerr"] = [err_on_mean(v) for v in rep["y"]]
    case["ys"] = [sum(v) / len(v) for v in rep["y"]]
    if rep["x"]:
        case["xerr"] = [err_on_mean(v) for v in rep["x"]]
        case["xs"] = [sum(v) / len(v) for v in rep["x"]]
    return case


def fit_kwargs(case):
    kw = {}
    if case["kind"] == "poly" and case["model"] == "polynomial" and case.get("degrees_kw", True):
        kw["degrees"] = case["deg"]
    if case["kind"] == "curve":
        kw["parguess"] = list(case["guess"])
    if case["xrange"] is not None:
        kw["xrange"] = xrange_arg(case)
    if case.get("parnames"):
        kw["parnames"] = list(case["parnames"])
    return kw


def run_repeated(case, observe_result=False):
    q = _q()
    rep = case["repeat"]
    yobjs = [q.Measurement(list(v)) for v in rep["y"]]
    e = {}
    if rep.get("x"):
        xobjs = [q.Measurement(list(v)) for v in rep["x"]]
        xs, xerr = [float(o.value) for o in xobjs], [float(o.error) for o in xobjs]
        xarg = xobjs
    else:
        xs = list(case["xs"])
        n = len(xs)
        xerr = [0.0] * n if case["xerr"] is None else [float(v) for v in case["xerr"]] if isinstance(case["xerr"], list) \
            else [float(case["xerr"])] * n
        xarg = list(xs)
        if case["xerr"] is not None:
            e["xerr"] = list(case["xerr"]) if isinstance(case["xerr"], list) else case["xerr"]
    eff = dict(case, xs=xs, xerr=xerr, ys=[float(o.value) for o in yobjs], yerr=[float(o.error) for o in yobjs],
               repeat=None, mode="lists")
    kw = fit_kwargs(case)
    model = model_arg(case)
    holder = rep.get("holder", "lists")
    if holder == "marray":
        thunk = (lambda: q.fit(q.MeasurementArray(xarg, **({"error": e["xerr"]} if "xerr" in e else {})),
                               q.MeasurementArray(yobjs), model, **kw))
    elif holder == "dataset":
        thunk = (lambda: q.fit(q.XYDataSet(xarg, yobjs, **e), model, **kw))
    else:
        thunk = (lambda: q.fit(xarg, yobjs, model, **e, **kw))
    obs = run_call(thunk, eff, observe_result)
    obs["eff_case"] = eff
    return obs


def run_call(thunk, case, observe_result=False):
    """run one fit call (thunk) with the recording wrappers; [case] describes the data as they are at the call"""
    import numpy as np
    rec = Recorder()
    obs = {"exn": None}
    res = None
    with warnings.catch_warnings():
        warnings.simplefilter("ignore")
        with recording(rec), np.errstate(all="ignore"):
            try:
                res = thunk()
            except Exception as e:  # noqa
                obs["exn"] = exn_class(e)
                obs["exn_type"] = type(e).__name__
                obs["exn_text"] = str(e)[:120]
    obs["rec"] = {"polyfit": rec.polyfit, "curve_fit": rec.curve_fit, "deriv": rec.deriv}
    if res is not None:
        obs["params"] = [float(p.value) for p in res.params]
        obs["errs"] = [float(p.error) for p in res.params]
        if observe_result:
            with warnings.catch_warnings():
                warnings.simplefilter("ignore")
                with np.errstate(all="ignore"):
                    obs["result"] = observe(res, case)
    elif observe_result and rec.result_args and rec.result_args[-1]["params"] is not None:
        # the fit raised while the result object was being built: the parameter objects exist already
        with warnings.catch_warnings():
            warnings.simplefilter("ignore")
            try:
                obs["partial"] = observe_params(rec.result_args[-1]["params"], rec.result_args[-1]["pcorr"])
            except Exception:  # noqa
                pass
    obs["_res"] = res
    return obs


# =============================================================================================================
# histories on ONE data-set object: fit, edit uncertainties / values in place, fit again, alternate requests
# =============================================================================================================
# case = {"kind": "history", "holder": "dataset" | "dataset_method" | "marrays",
#         "xs", "ys", "xerr", "yerr": the data the object is created with,
#         "requests": [ {kind, model, deg, designator, degrees_kw, xrange, xrange_type, guess, ...}, ... ],
#         "steps": [ ["fit", k] | ["yerr", [..]] | ["xerr", [..]] | ["y", i, v] | ["yerr1", i, e] | ["xerr1", i, e] ]}
REQ_KEYS = ("malformed", "large_x", "kind", "model", "deg", "designator", "degrees_kw", "xrange", "xrange_type", "guess", "truth", "noise_free", "as_lambda", "parnames")


def request_of(case):
    return {k: case[k] for k in REQ_KEYS if k in case}


def history_states(case):
    """the single-fit case equivalent to each fit step: [(step index, request index, current case)]"""
    n = len(case["xs"])

    def arr(e):
        return [0.0] * n if e is None else [float(v) for v in e] if isinstance(e, list) else [float(e)] * n
    xs, ys, xerr, yerr = list(case["xs"]), list(case["ys"]), arr(case["xerr"]), arr(case["yerr"])
    out = []
    for k, st in enumerate(case["steps"]):
        if st[0] == "fit":
            cur = dict(case["requests"][st[1]], xs=list(xs), ys=list(ys), xerr=list(xerr), yerr=list(yerr),
                       mode="dataset", history_step=k)
            out.append((k, st[1], cur))
        elif st[0] == "yerr":
            yerr = [float(v) for v in st[1]]
        elif st[0] == "xerr":
            xerr = [float(v) for v in st[1]]
        elif st[0] == "yerr1":
            yerr[st[1]] = float(st[2])
        elif st[0] == "xerr1":
            xerr[st[1]] = float(st[2])
        elif st[0] == "y":
            ys[st[1]] = float(st[2])
        else:
            raise ValueError(st)
    return out


def history_in_domain(case):
    try:
        states = history_states(case)
    except (IndexError, ValueError, KeyError, TypeError):
        return False
    if not states:
        return False
    for _, _, cur in states:
        if not in_domain(cur):
            return False
        if cur.get("malformed"):
            continue
        if cur["kind"] == "poly" and not well_posed_poly(cur):
            return False
        if cur["kind"] == "curve" and not any(e > 0 for e in cur["yerr"]) and any(e > 0 for e in cur["xerr"]):
            sel = [p for p in points(cur) if in_range_ref(cur, p[0])]
            scale = max(abs(p[2]) for p in sel) or 1.0
            if any(abs(ref_slope(cur["model"], cur["truth"], p[0])) < 0.05 * scale for p in sel):
                return False
    return True


def run_history(case, observe_result=False):
    """perform the steps on one object; returns [(step index, current case, obs)] for the fit steps"""
    q = _q()
    e = {}
    if case["xerr"] is not None:
        e["xerr"] = list(case["xerr"]) if isinstance(case["xerr"], list) else case["xerr"]
    if case["yerr"] is not None:
        e["yerr"] = list(case["yerr"]) if isinstance(case["yerr"], list) else case["yerr"]
    holder = case["holder"]
    if holder == "marrays":
        xa = q.MeasurementArray(list(case["xs"]), e["xerr"]) if "xerr" in e else q.MeasurementArray(list(case["xs"]))
        ya = q.MeasurementArray(list(case["ys"]), e["yerr"]) if "yerr" in e else q.MeasurementArray(list(case["ys"]))
        xdata, ydata = xa, ya
    else:
        ds = q.XYDataSet(list(case["xs"]), list(case["ys"]), **e)
        xdata, ydata = ds.xdata, ds.ydata
    states = {k: cur for k, _, cur in history_states(case)}
    out = []
    for k, st in enumerate(case["steps"]):
        if st[0] == "fit":
            cur = states[k]
            kw = {}
            if cur["kind"] == "poly" and cur["model"] == "polynomial" and cur.get("degrees_kw", True):
                kw["degrees"] = cur["deg"]
            if cur["kind"] == "curve":
                kw["parguess"] = list(cur["guess"])
            if cur["xrange"] is not None:
                kw["xrange"] = xrange_arg(cur)
            if cur.get("parnames"):
                kw["parnames"] = list(cur["parnames"])
            model = model_arg(cur)
            if holder == "marrays":
                thunk = (lambda m=model, kw=kw: q.fit(xa, ya, m, **kw))
            elif holder == "dataset_method":
                thunk = (lambda m=model, kw=kw: ds.fit(m, **kw))
            else:
                thunk = (lambda m=model, kw=kw: q.fit(ds, m, **kw))
            out.append((k, cur, run_call(thunk, cur, observe_result)))
        elif st[0] == "yerr":
            for item, v in zip(ydata, st[1]):
                item.error = float(v)
        elif st[0] == "xerr":
            for item, v in zip(xdata, st[1]):
                item.error = float(v)
        elif st[0] == "yerr1":
            ydata[st[1]].error = float(st[2])
        elif st[0] == "xerr1":
            xdata[st[1]].error = float(st[2])
        elif st[0] == "y":
            ydata[st[1]].value = float(st[2])
    return out


def gen_history(rng, curve=None):
    """fit -> edit in place -> fit the same request again, optionally alternating with a second request"""
    curve = rng.random() < 0.35 if curve is None else curve
    for _ in range(200):
        if curve:
            base = gen_curve_case(rng)
            base["xrange"] = None
        else:
            base = gen_poly_case(rng)
            if isinstance(base["xrange"], str):
                base["xrange"] = None
        if base.get("repeat"):
            continue          # in-place edits below address plain points
        n = len(base["xs"])
        npar = nparams_of(base)
        reqs = [request_of(base)]
        # a second, different request on the same object: other x-range, other model / degree
        if rng.random() < 0.5:
            other = dict(reqs[0])
            r = rng.random()
            if base.get("large_x"):
                other.update(model="polynomial", deg=3 if base["deg"] != 3 else 4, degrees_kw=True)
                other.pop("parnames", None)
            elif r < 0.5 or curve:
                other["xrange"] = gen_xrange(rng, base["xs"], npar + 1 if curve else npar) if base["xrange"] is None else None
            elif r < 0.75:
                other.update(model="polynomial", deg=(base["deg"] % 3) + 1, degrees_kw=True)
                other.pop("parnames", None)
            else:
                m = "linear" if base["model"] != "linear" else "quadratic"
                other.update(model=m, deg={"linear": 1, "quadratic": 2}[m])
                other.pop("parnames", None)
            if other != reqs[0] and len(base["xs"]) > nparams_of(dict(base, **other)) + 1:
                reqs.append(other)

        def arr(e):
            return [0.0] * n if e is None else [float(v) for v in e] if isinstance(e, list) else [float(e)] * n
        yerr = arr(base["yerr"])
        unit = max(yerr) or (1.0 if not curve else 2.0 ** round(math.log2(max(abs(y) for y in base["ys"]) / 16.0 or 1.0)))

        def edit():
            r = rng.random()
            if r < 0.3:          # common / none -> per point
                return ["yerr", [unit * rng.randrange(1, 25) / 8.0 for _ in range(n)]]
            if r < 0.45:         # rescale (no effect on polynomial parameters, but on curve_fit covariances)
                f = rng.choice([0.5, 2.0, 4.0])
                cur = [v if v > 0 else unit for v in yerr]
                return ["yerr", [v * f for v in cur]]
            if r < 0.7:          # some points get another positive uncertainty
                cur = [v if v > 0 else unit for v in yerr]
                for i in rng.sample(range(n), rng.randrange(1, max(2, n // 2))):
                    cur[i] = unit * rng.randrange(1, 49) / 8.0
                return ["yerr", cur]
            if r < 0.85 and curve:
                return ["xerr", [rng.randrange(1, 17) / 64.0 for _ in range(n)]]
            if r < 0.93:
                i = rng.randrange(n)
                return ["y", i, base["ys"][i] + rng.choice([-1, 1]) * (rng.randrange(1, 9) / 8.0) * (unit or 1.0)]
            i = rng.randrange(n)
            return ["yerr1", i, (yerr[i] or unit) * rng.choice([3.0, 5.0, 0.25])] if all(v > 0 for v in yerr) \
                else ["yerr", [unit * rng.randrange(1, 25) / 8.0 for _ in range(n)]]
        steps = [["fit", 0]]
        if len(reqs) == 2:
            steps += [["fit", 1], ["fit", 0]]
        bad = None
        if rng.random() < 0.25:
            # a request that must be rejected, offered twice, leaves nothing behind: the fits after it are unaffected
            what = rng.choice(["lo>hi", "badlen", "nonreal"])
            reqs.append(dict(reqs[0], malformed=what,
                             xrange=[max(base["xs"]), min(base["xs"])] if what == "lo>hi" else what))
            bad = len(reqs) - 1
            steps += [["fit", bad], ["fit", bad], ["fit", 0]]
        for _ in range(rng.randrange(1, 3)):
            st = edit()
            steps.append(st)
            if st[0] == "yerr":
                yerr = list(st[1])
            elif st[0] == "yerr1":
                yerr[st[1]] = st[2]
            steps.append(["fit", 0])
            if bad is not None and rng.random() < 0.5:
                steps += [["fit", bad], ["fit", 0]]
            if len(reqs) - (bad is not None) == 2:
                steps.append(["fit", 1])
                if rng.random() < 0.5:
                    steps.append(["fit", 0])
        case = {"kind": "history", "holder": rng.choice(["dataset", "dataset", "dataset_method", "marrays"]),
                "xs": base["xs"], "ys": base["ys"], "xerr": base["xerr"], "yerr": base["yerr"],
                "requests": reqs, "steps": steps}
        if history_in_domain(case):
            return case
    return None


# =============================================================================================================
# sessions with several fit results alive at once: every EARLIER result is looked at again after the later fits
# =============================================================================================================
def gen_multi(rng):
    """2-3 fits whose parameters carry the same names (same model, other data), sometimes a different model in between"""
    for _ in range(100):
        r = rng.random()
        if r < 0.55:
            first = gen_poly_case(rng)
            if isinstance(first["xrange"], str) or not well_posed_poly(first):
                continue

            def another():
                for _ in range(200):
                    c = gen_poly_case(rng)
                    if c["model"] == first["model"] and c["deg"] == first["deg"] and not isinstance(c["xrange"], str) \
                            and well_posed_poly(c):
                        return c
                return None
        else:
            first = gen_curve_case(rng)

            def another():
                return gen_curve_case(rng, model=first["model"], yscale=first.get("yscale"))
        fits = [first]
        if rng.random() < 0.2:
            fits.append(copy.deepcopy(first))          # the very same request again, both results alive
        for _ in range(rng.randrange(1, 3)):
            c = another()
            if c is None:
                break
            fits.append(c)
        if len(fits) < 2:
            continue
        if rng.random() < 0.3:
            other = gen_curve_case(rng) if first["kind"] == "poly" else gen_poly_case(rng)
            if other["kind"] == "curve" or (not isinstance(other["xrange"], str) and well_posed_poly(other)):
                fits.insert(rng.randrange(1, len(fits) + 1), other)
        return {"kind": "multi", "fits": fits}
    return None


def multi_in_domain(case):
    return len(case["fits"]) >= 1 and all(
        in_domain(c) and (c["kind"] != "poly" or well_posed_poly(c)) for c in case["fits"])


def run_multi(case):
    """perform all the fits, keep every result, THEN observe each result in full; returns [(fit case, obs)]"""
    import numpy as np
    runs = [(c, run_case(c)) for c in case["fits"]]
    for c, obs in runs:
        if obs.get("_res") is not None:
            with warnings.catch_warnings():
                warnings.simplefilter("ignore")
                with np.errstate(all="ignore"):
                    obs["result"] = observe(obs["_res"], c)
    return runs


def shrink_multi(case, fails):
    best = dict(case)

    def attempt(c):
        nonlocal best
        try:
            if multi_in_domain(c) and fails(c):
                best = c
                return True
        except Exception:  # noqa
            pass
        return False
    changed = True
    while changed and len(best["fits"]) > 1:
        changed = False
        for i in range(len(best["fits"])):
            if attempt(dict(best, fits=best["fits"][:i] + best["fits"][i + 1:])):
                changed = True
                break
    for i in range(len(best["fits"])):
        small = shrink_case(best["fits"][i], lambda c, i=i: multi_in_domain(dict(best, fits=best["fits"][:i] + [c] + best["fits"][i + 1:]))
                            and fails(dict(best, fits=best["fits"][:i] + [c] + best["fits"][i + 1:])))
        attempt(dict(best, fits=best["fits"][:i] + [small] + best["fits"][i + 1:]))
    return best


def shrink_history(case, fails):
    """fewer steps, one request, fewer points"""
    best = dict(case)

    def attempt(c):
        nonlocal best
        try:
            if history_in_domain(c) and fails(c):
                best = c
                return True
        except Exception:  # noqa
            pass
        return False
    if best["holder"] != "dataset":
        attempt(dict(best, holder="dataset"))
    changed = True
    while changed:
        changed = False
        for i in range(len(best["steps"])):
            if attempt(dict(best, steps=best["steps"][:i] + best["steps"][i + 1:])):
                changed = True
                break
    used = sorted({st[1] for st in best["steps"] if st[0] == "fit"})
    if len(used) < len(best["requests"]):
        attempt(dict(best, requests=[best["requests"][k] for k in used],
                     steps=[["fit", used.index(st[1])] if st[0] == "fit" else st for st in best["steps"]]))
    for k, r in enumerate(best["requests"]):
        for key, val in (("xrange", None), ("designator", "str")):
            if r.get(key) not in (None, val):
                rs = list(best["requests"])
                rs[k] = dict(r, **{key: val})
                attempt(dict(best, requests=rs))
    if best["xerr"] is not None and not any(st[0].startswith("xerr") for st in best["steps"]):
        attempt(dict(best, xerr=None))
    return best


def eval_points(case):
    xs = case["xs"]
    lo, hi = min(xs), max(xs)
    pts = [xs[0], (lo + hi) / 2, lo - 0.5, hi + 0.25, 0.0]
    out = []
    for p in pts:
        if p not in out:
            out.append(float(p))
    return out


def parse_printed_matrix(text):
    """the correlation matrix printed by str(result)"""
    a = text.index("Correlation Matrix:") + len("Correlation Matrix:")
    b = text.index("chi2/ndof")
    body = text[a:b].replace("[", " ").replace("]", "\n")
    rows = [[float(t) for t in line.split()] for line in body.split("\n") if line.strip()]
    return rows


def observe_params(params, pcorr):
    """uncertainties, reported matrix and what is registered between the parameter objects"""
    q = _q()
    n = len(params)
    return {
        "params": [float(p.value) for p in params], "errs": [float(p.error) for p in params],
        "pcorr": [[float(v) for v in row] for row in pcorr],
        "getcorr": [[float(q.get_correlation(params[i], params[j])) for j in range(n)] for i in range(n)],
        "getcov": [[float(q.get_covariance(params[i], params[j])) for j in range(n)] for i in range(n)],
    }


REEVAL_EDITS = ("monte-carlo", "recalculate", "mc-settings", "override-value", "override-error")


def reevaluate(res, case, ev):
    q = _q()
    f = res.fit_function
    edits, vals, errs = [], [], []
    for i, x in enumerate(ev):
        first = f(x)
        how = REEVAL_EDITS[(i + int(case.get("reeval_shift", 0))) % len(REEVAL_EDITS)]
        if how == "monte-carlo":
            first.error_method = q.ErrorMethod.MONTE_CARLO
            _ = first.value, first.error
        elif how == "recalculate":
            _ = first.value
            first.recalculate()
        elif how == "mc-settings":
            first.error_method = q.ErrorMethod.MONTE_CARLO
            first.mc.sample_size = 500
            first.mc.use_mode_with_confidence(0.5)
            _ = first.value
        elif how == "override-value":
            first.value = float(first.value) * 2 + 1
        else:
            first.error = float(first.error) * 3 + 1
        second = f(x)
        edits.append(how)
        vals.append(float(second.value))
        errs.append(float(second.error))
    out = {"again_edit": edits, "again": vals, "again_band": errs}
    if case.get("plot"):
        import qexpy.plotting as qplt
        import matplotlib.pyplot as pyplot
        ends = [float(min(case["xs"])), float(max(case["xs"]))]
        out["plot_first"] = [float(f(x).value) for x in ends]
        fig = qplt.plot(res)
        fig.show()
        pyplot.close("all")
        out["plot_eval"] = ends
        out["plot_again"] = [float(f(x).value) for x in ends]
        out["plot_again_band"] = [float(f(x).error) for x in ends]
    return out


def observe(res, case):
    """everything C07 talks about, read through the public API (plus the stored correlation matrix).
    The parameter-level observations come first; if evaluating the fitted function raises, that is recorded
    under "eval_exn" and the value-level entries are missing."""
    import numpy as np
    n = len(res.params)
    ev = eval_points(case)
    f = res.fit_function
    out = observe_params(res.params, res._result.pcorr)
    out.update({
        "eval": ev,
        "printed": parse_printed_matrix(str(res)),
        "getitem": [float(res[i].value) for i in range(n)],
        "dataset_x": [float(v) for v in res.dataset.xvalues], "dataset_y": [float(v) for v in res.dataset.yvalues],
        "dataset_yerr": [float(v) for v in res.dataset.yerr],
    })
    try:
        scal = [float(f(x).value) for x in ev]
        lst_out = f(list(ev))
        arr_out = f(np.array(ev))
        out.update({
            "scalar": scal,
            "list": [float(v.value) for v in lst_out], "list_type": type(lst_out).__name__,
            "array": [float(v.value) for v in arr_out], "array_type": type(arr_out).__name__,
            "band": [float(f(x).error) for x in ev],
            "table": [float(f(float(x)).value) for x in case["xs"]],
            "residuals": [float(r.value) for r in res.residuals],
            "residual_errors": [float(r.error) for r in res.residuals],
            "chi2": float(res.chi_squared), "ndof": int(res.ndof),
        })
        # evaluate again at the same points after the value returned the first time was used / modified by its owner
        # (switched to Monte Carlo and read, recalculated, Monte Carlo settings changed, value overridden), and after the
        # result was drawn: what fit_function returns must still be the model at the returned parameters
        again = reevaluate(res, case, ev)
        out.update(again)
    except Exception as e:  # noqa
        out["eval_exn"] = "{}: {}".format(type(e).__name__, str(e)[:120])
    return out


# =============================================================================================================
# encoding for Coq
# =============================================================================================================
def qlist(vals):
    return coq_list([qlit(v) for v in vals])


def qmat(rows):
    return coq_list([qlist(r) for r in rows])


def coq_dpts(case):
    return coq_list(["(Build_dpt {} {} {} {})".format(qlit(x), qlit(xe), qlit(y), qlit(ye)) for x, xe, y, ye in points(case)])


def coq_xr(case):
    xr = case["xrange"]
    if xr is None:
        return "XNone"
    if xr in ("empty_tuple", "empty_list"):
        return "XEmpty"
    if xr == "badlen":
        return "XBadLen"
    if xr == "nonreal":
        return "XNonReal"
    return "(XPair {} {})".format(qlit(xr[0]), qlit(xr[1]))


def coq_exn(e):
    return coq_option(e, lambda x: x)


HEADER = ("From Coq Require Import List ZArith QArith Bool.\nImport ListNotations.\n"
          "From QV Require Import Base.CaseLib Model.Fit Model.FitCases.\nImport FQ.\nLocal Open Scope Q_scope.\n")


def coq_poly_case(case, obs):
    r = obs["rec"]["polyfit"][-1] if obs["rec"]["polyfit"] else {"x": [], "y": [], "w": None, "deg": 0, "pcov": []}
    return "(Build_poly_case {} {} {} {} {} {} {} {} {} {} {})".format(
        coq_dpts(case), coq_xr(case), natlit(case["deg"]), coq_exn(obs["exn"]),
        qlist(r["x"]), qlist(r["y"]), coq_option(r["w"], qlist), natlit(r["deg"]),
        qlist(obs.get("params", [])), qlist(obs.get("errs", [])), qmat(r["pcov"]))


def coq_curve_case(case, obs):
    calls = obs["rec"]["curve_fit"]
    der = obs["rec"]["deriv"]
    last = calls[-1] if calls else {"popt": [], "pcov": []}
    return "(Build_curve_case {} {} {} {} {} {} {} {} {} {} {} {} {} {} {})".format(
        coq_dpts(case), coq_xr(case), coq_bool(case["model"] == "userquad"), coq_exn(obs["exn"]),
        coq_list([coq_option(c["sigma"], qlist) for c in calls]),
        coq_list([qlist(c["x"]) for c in calls]), coq_list([qlist(c["y"]) for c in calls]),
        coq_list([coq_bool(c["absolute_sigma"]) for c in calls]),
        coq_list([qlist(d["x0"]) for d in der]), qlist(der[0]["out"] if der else []),
        qlist(calls[0]["popt"] if calls else []), qlist(last["popt"]), qmat(last["pcov"]),
        qlist(obs.get("params", [])), qlist(obs.get("errs", [])))


def coq_res_case(case, obs):
    r = obs["result"]
    rec = obs["rec"]
    raw = rec["polyfit"][-1] if rec["polyfit"] else rec["curve_fit"][-1]
    m = case["model"]
    fm = {"linear": "(FRat MLin)", "quadratic": "(FRat MQuad)", "polynomial": "(FRat MPoly)",
          "userquad": "(FRat MUserQuad)"}.get(m, "FTable")
    table = coq_list(["({}, {})".format(qlit(x), qlit(v)) for x, v in zip(case["xs"], r["table"])])
    rows = list(zip(r["eval"], r["scalar"], r["list"], r["array"]))
    # second evaluations (after the first returned value was modified / the result was drawn) must give the model value again
    # (the first evaluation stands in the scalar column: the repeated one must be the very same number)
    rows += [(x, a0, a, a) for x, a0, a in zip(r["eval"], r["scalar"], r.get("again", []))]
    rows += [(x, a0, a, a) for x, a0, a in zip(r.get("plot_eval", []), r.get("plot_first", []), r.get("plot_again", []))]
    ev = coq_list(["({}, ({}, {}, {}))".format(qlit(x), qlit(a), qlit(b), qlit(c)) for x, a, b, c in rows])
    return "(Build_res_case {} {} {} {} {} {} {} {} {} {} {} {} {} {})".format(
        fm, qlist(raw["popt"]), qmat(raw["pcov"]), coq_dpts(case), table, ev, qlist(r["residuals"]), qlit(r["chi2"]),
        zlit(r["ndof"]), qlist(obs["errs"]), qmat(r["pcorr"]), qmat(r["getcorr"]), qmat(r["getcov"]), qmat(r["printed"]))


def shard_text(check, terms):
    return HEADER + "Definition cases := {}.\nEval vm_compute in (bad_indices {} cases).\n".format(
        coq_list(terms), check)


def signature(why):
    """what kind of failure a message describes (numbers removed), to report each kind once"""
    import re
    return re.sub(r"[-+]?\d[\d.e+-]*", "#", why or "")[:48]


def numerically_lost(case, obs):
    """a LARGE-|x| polynomial fit whose result object could not be built because the library's first-order propagation of
    the residuals came out (by rounding: the terms cancel to 1e-16 of their size) negative.  Reported to the maintainers
    as a robustness observation; not an input on which C06 / C07 can be judged."""
    return bool(case.get("large_x")) and obs.get("exn_type") == "UndefinedActionError"


def strip(obs):
    """JSON-able part of an observation"""
    return {k: v for k, v in obs.items() if not k.startswith("_")}


def load_corpus(prop_id):
    d = os.path.join(core.VERIF, "corpus", prop_id)
    out = []
    if os.path.isdir(d):
        for f in sorted(os.listdir(d)):
            if f.endswith(".json"):
                out.append(json.load(open(os.path.join(d, f))))
    return out


# =============================================================================================================
# shrinking a failing case
# =============================================================================================================
def shrink_case(case, fails):
    """smaller cases that still fail: fewer points, plainer way of passing, no x-range / uncertainties"""
    best = dict(case)

    def attempt(c):
        nonlocal best
        try:
            if in_domain(c) and fails(c):
                best = c
                return True
        except Exception:  # noqa
            pass
        return False
    for key, val in (("mode", "lists"), ("designator", "str"), ("xrange_type", "tuple")):
        if best.get(key) not in (None, val):
            attempt(dict(best, **{key: val}))
    for key in ("numtype", "parnames", "preread", "plot", "as_lambda"):
        if best.get(key):
            attempt({k: v for k, v in best.items() if k != key})
    for key in ("xrange", "xerr", "yerr"):
        if best.get(key) is not None:
            attempt(dict(best, **{key: None}))
    for key in ("xerr", "yerr"):
        if isinstance(best.get(key), list):
            attempt(dict(best, **{key: best[key][0]}))
    # drop points one at a time
    changed = True
    while changed and len(best["xs"]) > nparams_of(best) + 2:
        changed = False
        for i in range(len(best["xs"])):
            c = dict(best)
            for key in ("xs", "ys", "xerr", "yerr"):
                if isinstance(c.get(key), list):
                    c[key] = c[key][:i] + c[key][i + 1:]
            if c.get("repeat"):
                c["repeat"] = {k: (v[:i] + v[i + 1:] if isinstance(v, list) else v) for k, v in c["repeat"].items()}
            if len(c["xs"]) > nparams_of(c) + 1 and attempt(c):
                changed = True
                break
    return best
