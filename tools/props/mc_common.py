"""Shared harness of the Monte Carlo properties C16 and C02: case generation, deterministic execution of the
implementation with an injected numpy.random.normal, exact references in Fraction, encoding into Coq case files.

Nothing here consults the Coq model; the model is only used through the generated case files."""
import math
import random
import warnings
from fractions import Fraction

import numpy as np

from vlib import core, coq
from vlib.coqfmt import qlit, zlit, coq_list, coq_bool, coq_option, pv_to_coq, pv_to_py, Interner

HEADER = ("From Coq Require Import List ZArith QArith Bool String.\nImport ListNotations.\n"
          "From QV Require Import Base.Py Base.CaseLib Model.MC Model.MCCases.\nOpen Scope string_scope.\nOpen Scope Q_scope.\n")
MAX_FAKE = 400000


def _q():
    import qexpy as q
    return q


def fx(x):
    """float -> hex string (exact)"""
    return float(x).hex()


def fr(h):
    """hex string / number -> Fraction (exact)"""
    if isinstance(h, str):
        return Fraction(float.fromhex(h))
    return Fraction(h)


# ---------------------------------------------------------------------------------------------------
# offsets injected for numpy.random.normal
# ---------------------------------------------------------------------------------------------------
OFFSET_KINDS = ["uniform", "low", "high", "peak", "two", "coarse"]


def gen_offsets(kind, rng, size):
    out = []
    for _ in range(size):
        if kind == "uniform":
            m = rng.randint(-48, 48)
        elif kind == "low":       # piled up at the low end, long tail upwards (mode in the first bins)
            m = -40 + min(88, int(rng.expovariate(0.12)))
        elif kind == "high":      # mirrored (mode in the last bins)
            m = 40 - min(88, int(rng.expovariate(0.12)))
        elif kind == "peak":
            m = rng.choice([0, 0, 0, 1, -1, 2, -2, rng.randint(-48, 48)])
        elif kind == "two":
            m = rng.choice([-32, -32, 32, 32, 32, rng.randint(-48, 48)])
        else:                     # coarse grid: many exact zero hits of v + e*z
            m = 8 * rng.randint(-6, 6)
        out.append(m / 16.0)
    return out


def hash_int(s):
    import hashlib
    return int(hashlib.sha256(str(s).encode()).hexdigest()[:12], 16)


class time_limit:
    """interrupt a call of the implementation that does not return (a loop that never ends)"""

    def __init__(self, seconds):
        self.seconds = seconds

    def __enter__(self):
        import signal

        def handler(signum, frame):
            raise TimeoutError("no result within {} s".format(self.seconds))
        self.old = signal.signal(signal.SIGALRM, handler)
        signal.setitimer(signal.ITIMER_REAL, self.seconds)

    def __exit__(self, *a):
        import signal
        signal.setitimer(signal.ITIMER_REAL, 0)
        signal.signal(signal.SIGALRM, self.old)


class Script:
    """replacement of numpy.random.normal: deterministic dyadic offsets, every call recorded"""

    def __init__(self, seed, kind):
        self.seed, self.kind, self.calls = seed, kind, []
        self.muted = False          # calls made for OTHER quantities (siblings) are answered but not recorded

    def __call__(self, loc=0.0, scale=1.0, size=None):
        n = int(size)
        if self.muted:
            return np.array(gen_offsets("uniform", random.Random("{}:muted:{}".format(self.seed, n)), n), dtype=float)
        if isinstance(size, bool) or n > MAX_FAKE or (self.kind != "real" and n > 4096):
            raise RuntimeError("harness: normal() asked for {} offsets".format(size))
        if self.kind == "real":      # the real generator, seeded per call (oracle runs only)
            arr = [float(x) for x in np.random.RandomState(
                (hash_int(self.seed) + 7919 * len(self.calls)) % (2 ** 32)).normal(0.0, 1.0, n)]
        else:
            rng = random.Random("{}:{}".format(self.seed, len(self.calls)))
            arr = gen_offsets(self.kind, rng, n)
        self.calls.append(arr)
        return np.array(arr, dtype=float)


class patched_normal:
    def __init__(self, script):
        self.script = script

    def __enter__(self):
        self.orig = np.random.normal
        np.random.normal = self.script
        return self.script

    def __exit__(self, *a):
        np.random.normal = self.orig


def reset_globals():
    q = _q()
    q.reset_correlations()
    q.reset_default_configuration()


# ---------------------------------------------------------------------------------------------------
# formulas
# ---------------------------------------------------------------------------------------------------
BIN = {"add": lambda a, b: a + b, "sub": lambda a, b: a - b, "mul": lambda a, b: a * b, "div": lambda a, b: a / b}
COQ_BIN = {"add": "Add", "sub": "Sub", "mul": "Mul", "div": "Div"}


def tree_has(tree, tag, defs):
    if tree[0] == tag:
        return True
    if tree[0] == "ref":
        return tree_has(defs[tree[1]], tag, defs)
    return any(tree_has(t, tag, defs) for t in tree[1:] if isinstance(t, list))


def tree_vars(tree, defs):
    if tree[0] == "var":
        return {tree[1]}
    if tree[0] == "ref":
        return tree_vars(defs[tree[1]], defs)
    out = set()
    for t in tree[1:]:
        if isinstance(t, list):
            out |= tree_vars(t, defs)
    return out


def gen_tree(rng, k, depth, defs, allow_div, in_denominator=False):
    """a formula over measurements 0..k-1; constants only as one operand of a binary operation"""
    if depth <= 0 or rng.random() < 0.25:
        if defs and not in_denominator and rng.random() < 0.25:
            return ["ref", rng.randrange(len(defs))]
        return ["var", rng.randrange(k)]
    r = rng.random()
    if r < 0.1:
        return ["neg", gen_tree(rng, k, depth - 1, defs, allow_div, in_denominator)]
    ops = ["add", "sub", "mul", "mul"] + (["div"] if allow_div and not in_denominator else [])
    o = rng.choice(ops)
    a = gen_tree(rng, k, depth - 1, defs, allow_div, in_denominator)
    if o == "div":
        b = gen_tree(rng, k, min(depth - 1, 1), defs, False, True)
        if rng.random() < 0.2:
            a = ["cst", fx(rng.choice([1.0, 2.0, -3.0, 0.5]))]
        return [o, a, b]
    if rng.random() < 0.3:
        c = ["cst", fx(rng.choice([2.0, 0.5, -1.5, 3.0, 0.25, -2.0, 1.0]))]
        return [o, a, c] if rng.random() < 0.5 else [o, c, a]
    b = gen_tree(rng, k, depth - 1, defs, allow_div, in_denominator)
    return [o, a, b]


def gen_defs(rng, k, allow_div=True, depth=3, require_all=False):
    for _ in range(50):
        defs = []
        for _ in range(rng.choice([1, 1, 2, 3])):
            defs.append(gen_tree(rng, k, rng.randint(1, depth), list(defs), allow_div))
        top = defs[-1]
        if top[0] in ("var", "ref", "cst"):
            continue
        if require_all and tree_vars(top, defs) != set(range(k)):
            continue
        return defs
    return [["add", ["var", 0], ["var", k - 1]]] if not require_all else \
        [["add", ["var", 0], ["add", ["var", min(1, k - 1)], ["var", k - 1]]]]


def build_value(tree, meas, objs):
    t = tree[0]
    if t == "var":
        return meas[tree[1]]
    if t == "cst":
        return float.fromhex(tree[1])
    if t == "ref":
        return objs[tree[1]]
    if t == "neg":
        return -build_value(tree[1], meas, objs)
    if t == "sqrtsq":
        v = build_value(tree[1], meas, objs)
        return _q().sqrt(v) * _q().sqrt(v)
    return BIN[t](build_value(tree[1], meas, objs), build_value(tree[2], meas, objs))


def coq_expr(tree, defs, pos):
    t = tree[0]
    if t == "var":
        return "(Var {})".format(pos[tree[1]])
    if t == "cst":
        return "(Cst {})".format(qlit(float.fromhex(tree[1])))
    if t == "ref":
        return coq_expr(defs[tree[1]], defs, pos)
    if t == "neg":
        return "(Neg {})".format(coq_expr(tree[1], defs, pos))
    if t == "sqrtsq":
        return "(SqrtSq {})".format(coq_expr(tree[1], defs, pos))
    return "({} {} {})".format(COQ_BIN[t], coq_expr(tree[1], defs, pos), coq_expr(tree[2], defs, pos))


def eval_exact(tree, defs, x):
    """Fraction evaluation; None = undefined (division by zero)"""
    t = tree[0]
    if t == "var":
        return x[tree[1]]
    if t == "cst":
        return fr(tree[1])
    if t == "ref":
        return eval_exact(defs[tree[1]], defs, x)
    if t == "neg":
        a = eval_exact(tree[1], defs, x)
        return None if a is None else -a
    if t == "sqrtsq":
        a = eval_exact(tree[1], defs, x)
        return None if a is None or a < 0 else a
    a, b = eval_exact(tree[1], defs, x), eval_exact(tree[2], defs, x)
    if a is None or b is None:
        return None
    if t == "add":
        return a + b
    if t == "sub":
        return a - b
    if t == "mul":
        return a * b
    return None if b == 0 else a / b


def err_units(tree, defs, x, spread):
    """(value, E): float evaluation at the point x and a bound E such that the rounding error of evaluating the formula in
    double precision on draws around x is about 1e-16 * E (x_i = v_i + e_i * o is itself rounded: E_leaf = |v_i| + 4 e_i)"""
    t = tree[0]
    if t == "var":
        return x[tree[1]], abs(x[tree[1]]) + 4 * spread[tree[1]]
    if t == "cst":
        return float.fromhex(tree[1]), 0.0
    if t == "ref":
        return err_units(defs[tree[1]], defs, x, spread)
    if t in ("neg", "sqrtsq"):
        a, ea = err_units(tree[1], defs, x, spread)
        return (-a if t == "neg" else abs(a)), ea + abs(a)
    a, ea = err_units(tree[1], defs, x, spread)
    b, eb = err_units(tree[2], defs, x, spread)
    if t == "add":
        return a + b, ea + eb + abs(a + b)
    if t == "sub":
        return a - b, ea + eb + abs(a - b)
    if t == "mul":
        return a * b, abs(a) * eb + abs(b) * ea + abs(a * b)
    bb = max(abs(b), eb, 1e-150)
    try:
        return a / (b if abs(b) >= 1e-150 else bb), ea / bb + abs(a) * eb / (bb * bb) + abs(a) / bb
    except (ZeroDivisionError, OverflowError):
        return 0.0, float("inf")


def rounding_units(case):
    """E of the final formula at the central values of the sources (largest over the source edits of the history)"""
    vs, es = [], []
    for s in case["sources"]:
        if s["kind"] == "single":
            vs.append(float.fromhex(s["value"]))
            es.append(float.fromhex(s["error"]))
        else:
            d = [float.fromhex(h) for h in s["data"]]
            vs.append(sum(d) / len(d))
            es.append(max(d) - min(d))
    best = err_units(case["defs"][-1], case["defs"], vs, es)[1]
    for o in case.get("ops", []):
        if o[0] == "set_src":
            vs2, es2 = list(vs), list(es)
            vs2[o[1]], es2[o[1]] = float.fromhex(o[2]), float.fromhex(o[3])
            best = max(best, err_units(case["defs"][-1], case["defs"], vs2, es2)[1])
            vs, es = vs2, es2
    return best


def ill_conditioned(case, run):
    """True when the spread of the simulated outcomes is so small compared with the magnitudes inside the formula that
    double-precision rounding (about 1e-16 * E) is visible at the 1e-9 level of the comparison: such inputs say nothing
    about the implementation (x*x - 0.5 with x about 1e-12; products of differences of numbers near 2^30)"""
    E = rounding_units(case)
    if not (E > 0) or not math.isfinite(E):
        return False
    spreads = []
    for ob, _, _ in run["obs"]:
        if ob[0] == "samples" and len(ob[1]) >= 2:
            xs = [float.fromhex(x) for x in ob[1]]
            spreads.append(max(xs) - min(xs))
        elif ob[0] == "err" and ob[1] is not None:
            spreads.append(abs(float.fromhex(ob[1])))
    spreads = [s for s in spreads if s > 0] or ([0.0] if spreads else [])
    if not spreads:
        return False
    if min(spreads) == 0.0 and all(float.fromhex(e) == 0.0 for _, e, _ in run["srcs"]):
        return False
    return min(spreads) < 1e-6 * E


# ---------------------------------------------------------------------------------------------------
# sources
# ---------------------------------------------------------------------------------------------------
SCALES = [2.0 ** -30, 2.0 ** -40, 2.0 ** 30]          # about 1e-9, 1e-12, 1e9 (powers of two keep the arithmetic exact)


def gen_source_scaled(rng, repeated_ok=True, positive_error=False, scale=None, offset=None):
    """like gen_source; [scale] multiplies value and uncertainty, [offset] adds a large offset to the value
    (one-pass formulas cancel on 2^30 + 1), special central values, now and then a tiny uncertainty"""
    s = gen_source(rng, repeated_ok=repeated_ok and scale is None and offset is None, positive_error=positive_error)
    if s["kind"] != "single":
        return s
    v, e = float.fromhex(s["value"]), float.fromhex(s["error"])
    r = rng.random()
    if r < 0.2:
        v = rng.choice([0.0, 1.0, -1.0, 2.0, 10.0, 100.0])
    if rng.random() < 0.08 and e > 0:
        e = e * 2.0 ** -30                                  # one tiny uncertainty among ordinary ones
    if scale is not None:
        v, e = v * scale, e * scale
    if offset is not None:
        v = v + offset
    return {"kind": "single", "value": fx(v), "error": fx(e)}


def gen_sources(rng, k, repeated_ok=True, positive_error=False, allow_offset=True):
    """k sources of one problem: ordinary / all scaled by 1e-9, 1e-12 or 1e9 / with a large common offset; now and then
    equal central values of distinct measurements and equal names"""
    r = rng.random()
    scale = offset = None
    if r < 0.15:
        scale = rng.choice(SCALES)
    elif r < 0.2 and allow_offset:
        offset = 2.0 ** 30
    out = [gen_source_scaled(rng, repeated_ok, positive_error, scale, offset) for _ in range(k)]
    singles = [s for s in out if s["kind"] == "single"]
    if len(singles) >= 2 and rng.random() < 0.25:
        for s in (singles if rng.random() < 0.5 else singles[:2]):
            s["value"] = singles[0]["value"]
    if rng.random() < 0.2:
        for s in out:
            s["name"] = "x"
    return out, (scale is not None or offset is not None)


def gen_source(rng, repeated_ok=True, positive_error=False):
    if repeated_ok and rng.random() < 0.2:
        n = rng.choice([2, 4, 4, 8])
        base = rng.randint(-40, 40) / 8.0
        data = [base + rng.randint(-8, 8) / 16.0 for _ in range(n)]
        if len(set(data)) == 1:
            data[0] += 0.5
        return {"kind": "repeated", "data": [fx(x) for x in data]}
    v = rng.randint(-48, 48) / 8.0
    e = rng.choice([0.125, 0.25, 0.5, 0.5, 1.0, 1.5, 2.0, 0.75]) if (positive_error or rng.random() < 0.93) else 0.0
    return {"kind": "single", "value": fx(v), "error": fx(e)}


def make_measurement(spec):
    q = _q()
    kw = {"name": spec["name"]} if spec.get("name") else {}
    if spec["kind"] == "repeated":
        return q.Measurement([float.fromhex(h) for h in spec["data"]], **kw)
    return q.Measurement(float.fromhex(spec["value"]), float.fromhex(spec["error"]), **kw)


# ---------------------------------------------------------------------------------------------------
# exact references (Fractions) used for pre-checks and by the oracles
# ---------------------------------------------------------------------------------------------------
def exact_hist(xs, nb=100):
    """bin counts and edges of numpy.histogram(xs, bins=nb) computed exactly; xs: Fractions"""
    if not xs:
        lo, hi = Fraction(0), Fraction(1)
    else:
        lo, hi = min(xs), max(xs)
        if lo == hi:
            lo, hi = lo - Fraction(1, 2), hi + Fraction(1, 2)
    n = [0] * nb
    for x in xs:
        p = math.floor((x - lo) * nb / (hi - lo))
        n[nb - 1 if p >= nb else p] += 1
    edges = [lo + (hi - lo) * i / nb for i in range(nb + 1)]
    return n, edges


def near_edge(xs, nb=100, eps=Fraction(1, 10 ** 6)):
    """True when some sample lies within eps bin widths of an interior bin edge (membership could depend on rounding)"""
    if not xs:
        return False
    lo, hi = min(xs), max(xs)
    if lo == hi:
        # numpy widens the range to x -/+ 0.5, which puts every sample exactly ON the middle edge: its bin depends on the
        # rounding of x - 0.5 and x + 0.5 unless these are exact (x a small multiple of 1/4)
        return not (lo.denominator <= 4 and abs(lo) <= 2 ** 20)
    for x in xs:
        if x == lo or x == hi:
            continue
        p = (x - lo) * nb / (hi - lo)
        if abs(p - round(p)) < eps:
            return True
    return False


def brute_mode(n, conf):
    """(index of the fullest bin, smallest k covering conf*total) by brute force over all k; n: ints, conf: Fraction"""
    total = sum(n)
    m = max(range(len(n)), key=lambda i: (n[i], -i))
    for k in range(len(n) + 1):
        inside = sum(n[i] for i in range(len(n)) if abs(i - m) <= k)
        if inside >= conf * total:
            return m, k
    return m, None


def threshold_agrees(conf_float, conf_model, total):
    """the loop test  count < confidence * total  is decided by ceil(confidence * total); the float product
    may round across an integer -- such inputs are rounding-sensitive and are not used for the tie"""
    prod = float(conf_float) * float(total)
    return math.ceil(Fraction(prod)) == math.ceil(Fraction(conf_model) * total)


# ---------------------------------------------------------------------------------------------------
# running histories on the implementation
# ---------------------------------------------------------------------------------------------------
EXN = {"ValueError": "ValueError", "TypeError": "TypeError", "IndexError": "IndexError", "KeyError": "KeyError"}


def num_obs(x):
    if x is np.ma.masked or isinstance(x, np.ma.core.MaskedConstant):
        return None
    try:
        x = float(x)
    except Exception:
        return None
    return fx(x) if math.isfinite(x) else None


STRAT = {"monte-carlo-mean-and-std": "MeanStd", "monte-carlo-mode_and_confidence": "Mode",
         "monte-carlo-custom": "Custom"}


class Session:
    """one derived value built from a case description, driven op by op"""

    def __init__(self, case, script=None):
        with warnings.catch_warnings():
            warnings.simplefilter("ignore")
            self._init(case, script)

    def _init(self, case, script):
        q = _q()
        import qexpy.data.operations as op
        import qexpy.settings.literals as lit
        self.case = case
        self.script = script
        reset_globals()
        if case.get("dirty"):
            # the session does not start from a clean library: another correlated Monte Carlo quantity with equally
            # named sources was evaluated (mean/std and mode) just before
            p_, r_ = q.Measurement(7, 0.5, name="x"), q.Measurement(3, 0.25, name="x")
            q.set_correlation(p_, r_, 0.5)
            q.set_error_method(q.ErrorMethod.MONTE_CARLO)
            q.set_monte_carlo_sample_size(7)
            d_ = p_ * r_
            _ = d_.value, d_.error
            d_.mc.use_mode_with_confidence(0.5)
            _ = d_.value, d_.error
            q.set_error_method(q.ErrorMethod.DERIVATIVE)
        q.set_monte_carlo_sample_size(case["g"])
        self.meas = [make_measurement(s) for s in case["sources"]]
        for i, j, rho in case.get("corr", []):
            q.set_correlation(self.meas[i], self.meas[j], float.fromhex(rho))
        objs = []
        for d in case["defs"]:
            objs.append(build_value(d, self.meas, objs))
        self.res = objs[-1]
        meth = case.get("method", "global")     # every public spelling of "use Monte Carlo"
        if meth == "global":
            q.set_error_method(q.ErrorMethod.MONTE_CARLO)
        elif meth == "global-str":
            q.set_error_method("monte-carlo")
        elif meth == "own-str":
            self.res.error_method = "monte-carlo"
        else:
            self.res.error_method = q.ErrorMethod.MONTE_CARLO
        self.objs = objs
        # intermediate results that were READ under Monte Carlo before the final formula is evaluated: they hold
        # their own (different) sample sets of the same size, which must not leak into the final simulation.
        # The normal() calls they consume are a prelude (see Session.prelude) that the model does not see.
        import qexpy.data.data as dt
        if case.get("pre_read"):
            for o_ in objs[:-1]:
                if isinstance(o_, dt.DerivedValue):
                    o_.error_method = q.ErrorMethod.MONTE_CARLO
                    _ = o_.value, o_.error
        ids = list(op._find_source_measurement_ids(self.res._formula))
        by_id = {m._id: i for i, m in enumerate(self.meas)}
        self.order = [by_id[i] for i in ids]            # source order -> creation index
        self.pos = {c: p for p, c in enumerate(self.order)}
        # correlations given by POSITION in the source order (so that the matrix the Cholesky routine sees
        # does not depend on the random ids of this run), as exact rationals [pa, pb, num, den]
        # a source WITHOUT uncertainty at a given position of the source order (it cannot take part in a correlation)
        for zp in case.get("zero_pos", []):
            if zp < len(self.order) and case["sources"][self.order[zp]]["kind"] == "single":
                self.meas[self.order[zp]].error = 0.0
        for pa, pb, num, den in case.get("corr_pos", []):
            if pa < len(self.order) and pb < len(self.order):
                q.set_correlation(self.meas[self.order[pa]], self.meas[self.order[pb]], num / den)
        self.ev = self.res._DerivedValue__evaluators[lit.MONTE_CARLO]
        self.handed = []
        self.src_snapshot = [(fx(self.meas[c].value), fx(self.meas[c].error), fx(self.meas[c].std)) for c in self.order]
        self.corr_matrix = [[fx(q.get_correlation(self.meas[a], self.meas[b])) if a != b else fx(1.0)
                             for b in self.order] for a in self.order]
        if case.get("corr_pos"):
            k = len(self.order)
            m = [[[1, 1] if a == b else [0, 1] for b in range(k)] for a in range(k)]
            for pa, pb, num, den in case["corr_pos"]:
                if pa < k and pb < k:
                    m[pa][pb] = m[pb][pa] = [num, den]
            self.corr_matrix = m

    def enums(self):
        return {}

    def run_op(self, o):
        q = _q()
        r = self.res
        t = o[0]
        if t == "read_value":
            return ["val", num_obs(r.value)]
        if t == "read_error":
            return ["err", num_obs(r.error)]
        if t == "set_conf":
            r.mc.confidence = to_py(o[1])
        elif t == "set_range":
            r.mc.set_xrange(*[to_py(a) for a in o[1]])
        elif t == "use_mode":
            if o[1] == ["noarg"]:
                r.mc.use_mode_with_confidence()
            else:
                r.mc.use_mode_with_confidence(to_py(o[1]))
        elif t == "use_mean_std":
            r.mc.use_mean_and_std()
        elif t == "use_custom":
            r.mc.use_custom_value_and_error(to_py(o[1]), to_py(o[2]))
        elif t == "set_size":
            r.mc.sample_size = to_py(o[1])
        elif t == "reset_size":
            r.mc.reset_sample_size()
        elif t == "recalc":
            r.recalculate()
        elif t == "samples":
            arr = r.mc.samples()
            self.handed.append(arr)
            return ["samples", [fx(x) for x in arr]]
        elif t == "inspect":
            m = r.mc
            xr = m.xrange
            try:
                xr_obs = None if not xr else [fx(xr[0]), fx(xr[1])]
            except (TypeError, ValueError, IndexError):
                return ["exn", "OtherError"]        # the stored range is not a pair of numbers
            return ["info", int(m.sample_size), fx(m.confidence), STRAT[m.strategy], xr_obs]
        elif t == "mutate":
            self.handed[o[1]][o[2]] = float.fromhex(o[3])
        elif t == "set_gsize":
            q.set_monte_carlo_sample_size(o[1])
        elif t == "sibling":
            # another quantity with the same formula over the same sources is built and simulated in between
            # (its own evaluator, its own draws: nothing of it may show in this quantity)
            muted = getattr(self.script, "muted", None)
            if self.script is not None:
                self.script.muted = True
            try:
                sobjs = []
                for d in self.case["defs"]:
                    sobjs.append(build_value(d, self.meas, sobjs))
                sib = sobjs[-1]
                sib.error_method = q.ErrorMethod.MONTE_CARLO
                try:
                    _ = sib.value, sib.error
                    sib.mc.use_mode_with_confidence(0.5)
                    _ = sib.value
                except ValueError:       # numpy refuses 100 bins on a sample set a few ulps wide: the sibling's business
                    pass
            finally:
                if self.script is not None:
                    self.script.muted = muted
        elif t == "set_src":
            self.meas[o[1]].value = float.fromhex(o[2])
            self.meas[o[1]].error = float.fromhex(o[3])
        else:
            raise ValueError(o)
        return ["none"]

    def step(self, o):
        """-> (observation, fallback warning, ten-percent warning)"""
        with warnings.catch_warnings(record=True) as w:
            warnings.simplefilter("always")
            try:
                with time_limit(0.75):        # a loop of the implementation that never ends must not hang the check
                    ob = self.run_op(o)
            except RuntimeError:
                raise
            except TimeoutError:
                ob = ["exn", "Timeout"]
            except Exception as e:  # noqa
                ob = ["exn", EXN.get(type(e).__name__, "OtherError")]
        msgs = [str(x.message) for x in w]
        if o[0] == "sibling":       # warnings of the OTHER quantity's simulation are not this quantity's
            return ob, False, False
        return ob, any(m.startswith("Fail to generate a physical") for m in msgs), \
            any(m.startswith("Over 10 percent") for m in msgs)

    # --- private peeks without side effects (used by generators and pre-checks only) ---
    def raw(self):
        return [float(x) for x in self.ev.raw_samples]

    def strategy(self):
        return STRAT[self.ev.settings.strategy]


def run_case(case, ops=None):
    """execute a stored case; returns dict with observations, recorded normal() calls, source order"""
    script = Script(case["seed"], case["okind"])
    with patched_normal(script):
        try:
            s = Session(case, script)
            prelude = len(script.calls)
            obs = [s.step(o) for o in (case["ops"] if ops is None else ops)]
        finally:
            reset_globals()
    return {"obs": obs, "calls": script.calls[prelude:], "order": s.order, "pos": s.pos, "srcs": s.src_snapshot,
            "corr": s.corr_matrix}


# ---------------------------------------------------------------------------------------------------
# Coq encoding
# ---------------------------------------------------------------------------------------------------
def cq(h):
    return qlit(float.fromhex(h) if isinstance(h, str) else h)


def coq_oq(h):
    return "None" if h is None else "(Some {})".format(cq(h))


def to_py(j):
    """tagged value -> Python object; beyond vlib.coqfmt: numpy scalars, Fraction, Decimal"""
    t = j[0]
    if t == "np":           # ["np", dtype name, hex float or int]
        v = float.fromhex(j[2]) if isinstance(j[2], str) else j[2]
        return getattr(np, j[1])(v)
    if t == "fraction":
        return Fraction(j[1], j[2])
    if t == "decimal":
        import decimal
        return decimal.Decimal(j[1])
    if t in ("tuple", "list"):
        seq = [to_py(x) for x in j[1]]
        return tuple(seq) if t == "tuple" else seq
    return pv_to_py(j)


def coq_pv(j):
    """numpy scalars and Fractions are numbers.Real but not int: they cross as PFloat; a Decimal is not a Real (nor falsy
    unless zero): it crosses as a non-empty string"""
    if j == ["noarg"]:
        return "PNone"
    t = j[0]
    if t == "np":
        if j[1] == "bool_":          # numpy.bool_ is not a numbers.Real (unlike Python's bool); np.bool_(1) is truthy
            return '(PStr "numpy.bool_")'
        v = float.fromhex(j[2]) if isinstance(j[2], str) else j[2]
        return "(PFloat {})".format(qlit(float(getattr(np, j[1])(v))))
    if t == "fraction":
        return "(PFloat ({} # {}))".format(Fraction(j[1], j[2]).numerator, Fraction(j[1], j[2]).denominator)
    if t == "decimal":
        return '(PStr "decimal")'
    if t in ("tuple", "list"):
        return "({} {})".format("PTuple" if t == "tuple" else "PList", coq_list([coq_pv(x) for x in j[1]]))
    return pv_to_coq(j)


def coq_op(o, pos, k):
    t = o[0]
    if t == "read_value":
        return "ReadValue"
    if t == "read_error":
        return "ReadError"
    if t == "set_conf":
        return "(SetConfidence {})".format(coq_pv(o[1]))
    if t == "set_range":
        return "(SetRange {})".format(coq_list([coq_pv(a) for a in o[1]]))
    if t == "use_mode":
        return "(UseMode {})".format(coq_pv(o[1]))
    if t == "use_mean_std":
        return "UseMeanStd"
    if t == "use_custom":
        return "(UseCustom {} {})".format(coq_pv(o[1]), coq_pv(o[2]))
    if t == "set_size":
        return "(SetSampleSize {})".format(coq_pv(o[1]))
    if t == "reset_size":
        return "ResetSampleSize"
    if t == "recalc":
        return "Recalc"
    if t == "samples":
        return "Samples"
    if t == "inspect":
        return "Inspect"
    if t == "mutate":
        return "(Mutate {} {} {})".format(o[1], o[2], cq(o[3]))
    if t == "set_gsize":
        return "(SetGlobalSize {})".format(zlit(o[1]))
    if t == "sibling":
        return "(Mutate 4000 0 0)"       # nothing happens to THIS quantity (no such returned array)
    if t == "set_src":
        return "(SetSrc {} {} {})".format(pos.get(o[1], k), cq(o[2]), cq(o[3]))
    raise ValueError(o)


def coq_obs(ob):
    t = ob[0]
    if t == "none":
        return "BNone"
    if t == "exn":
        return "(BExn {})".format("OtherError" if ob[1] == "Timeout" else ob[1])
    if t == "val":
        return "(BVal {})".format(coq_oq(ob[1]))
    if t == "err":
        return "(BErr {})".format(coq_oq(ob[1]))
    if t == "samples":
        return "(BSamples {})".format(coq_list([cq(x) for x in ob[1]]))
    if t == "info":
        return "(BInfo {} {} {} {})".format(zlit(ob[1]), cq(ob[2]), ob[3],
                                            "None" if ob[4] is None else "(Some ({}, {}))".format(cq(ob[4][0]), cq(ob[4][1])))
    raise ValueError(ob)


def magnitude(run):
    """largest magnitude among the numbers of a run (sources, observed values, errors, samples)"""
    m = 0.0
    for v, e, sd in run["srcs"]:
        m = max(m, abs(float.fromhex(v)), abs(float.fromhex(e)))
    for ob, _, _ in run["obs"]:
        if ob[0] in ("val", "err") and ob[1] is not None:
            m = max(m, abs(float.fromhex(ob[1])))
        elif ob[0] == "samples":
            for x in ob[1]:
                m = max(m, abs(float.fromhex(x)))
    return m if m > 0 else 1.0


def coq_atol(m):
    """1e-10 times the magnitude, as an exact rational"""
    f = Fraction(m) / 10 ** 10
    return "({} # {})".format(f.numerator, f.denominator)


def coq_history_case(case, run, intern):
    pos, k = run["pos"], len(run["order"])
    e = coq_expr(case["defs"][-1], case["defs"], pos)
    C = coq_list([coq_list([cq(x) if isinstance(x, str) else "({} # {})".format(x[0], x[1]) for x in row])
                  for row in run["corr"]])
    srcs = coq_list(["(mksrc {} {} {})".format(cq(v), cq(er), cq(sd)) for v, er, sd in run["srcs"]])
    calls = coq_list([intern(coq_list([qlit(x) for x in c])) for c in run["calls"]])
    steps = coq_list(["({}, {}, ({}, {}))".format(coq_op(o, pos, k), coq_obs(ob), coq_bool(w1), coq_bool(w2))
                      for o, (ob, w1, w2) in zip(case["ops"], run["obs"])])
    return "({}, {}, {}, {}, {}, {}, {})".format(coq_atol(magnitude(run)), e, C, srcs, zlit(case["g"]), calls, steps)


def history_shards(cases_runs, per=40):
    shards, index = [], []
    for k in range(0, len(cases_runs), per):
        chunk = cases_runs[k:k + per]
        intern = Interner()
        body = coq_list([coq_history_case(c, r, intern) for c, r in chunk])
        shards.append(HEADER + intern.text() + "Definition cases := {}.\n"
                      "Eval vm_compute in (bad_indices check_history cases).\n".format(body))
        index.append(k)
    return shards, index


def first_bad_step(case, run):
    """ask the model which step of a disagreeing history is the first one that differs (for reports)"""
    intern = Interner()
    term = coq_history_case(case, run, intern)
    text = ("let '(atol, e, C, srcs0, g, calls, h) := {} in first_bad atol (eval e) C calls (init srcs0 g) h 0".format(term))
    ok, out = coq.eval_terms("MC", HEADER + intern.text(), [text])
    return out.strip()[-200:] if ok else None
