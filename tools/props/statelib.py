"""Shared harness for the evaluator state machine (C05, C15): operation histories over a small world of
measurements and calculated quantities, executed on the implementation and encoded for Model/CoreStateQ.v,
plus the property-level oracles (rebuild-afresh comparison, method selection, determinism)."""
import hashlib
import math
import warnings
from fractions import Fraction

from vlib import core
from vlib.coqfmt import qlit, coq_list, Interner
from props import corelib as CL

MC_SIZE = 40
METHODS = {"derivative": "Derivative", "monte-carlo": "MonteCarlo"}
HEADER = ("From Coq Require Import List ZArith QArith Bool.\nImport ListNotations.\n"
          "From QV Require Import Base.QOps Base.CaseLib Gen.OpsTable Model.Core Model.CoreQ Model.CoreState Model.CoreStateQ.\n"
          "Open Scope Q_scope.\n")


class Session:
    """executes history operations on the implementation; objects are numbered in creation order"""

    def __init__(self):
        CL.reset_world()
        self.q = CL.q()
        self.q.set_monte_carlo_sample_size(MC_SIZE)
        self.objs = []
        self.kinds = []            # "meas" | "der"
        self.gen_arrays = []       # stored sample arrays in order of first appearance

    def operand(self, ref):
        return self.objs[ref[1]] if ref[0] == "obj" else CL.typed_number(ref[1], ref[2] if len(ref) > 2 else None)

    def gen_of(self, k):
        """generation of the stored sample set: identity of the array object (kept alive here so that ids are not reused)"""
        arr = self.objs[k]._DerivedValue__evaluators["monte-carlo"].raw_samples
        if arr.size == 0:
            return None
        for i, a in enumerate(self.gen_arrays):
            if a is arr:
                return i
        self.gen_arrays.append(arr)
        return len(self.gen_arrays) - 1

    def scan_gens(self):
        """assign generation ids in creation order: look at every calculated quantity after every operation"""
        for k, kind in enumerate(self.kinds):
            if kind == "der":
                self.gen_of(k)

    def run(self, op):
        """returns the observation as a JSON-able list"""
        q = self.q
        t = op[0]
        with warnings.catch_warnings():
            warnings.simplefilter("ignore")
            try:
                if t == "meas":
                    self.objs.append(q.Measurement(op[1], op[2]))
                    self.kinds.append("meas")
                    out = ["none"]
                elif t == "un":
                    a = self.operand(op[2])
                    self.objs.append((-a) if op[1] == "neg" else getattr(q, op[1])(a))
                    self.kinds.append("der")
                    out = ["none"]
                elif t == "bin":
                    a, b = self.operand(op[2]), self.operand(op[3])
                    res = {"add": lambda: a + b, "sub": lambda: a - b, "mul": lambda: a * b,
                           "div": lambda: a / b, "pow": lambda: a ** b}[op[1]]()
                    self.objs.append(res)
                    self.kinds.append("der")
                    out = ["none"]
                elif t == "set_value":
                    self.objs[op[1]].value = CL.typed_number(op[2], op[3] if len(op) > 3 else None)
                    out = ["none"]
                elif t == "set_error":
                    self.objs[op[1]].error = CL.typed_number(op[2], op[3] if len(op) > 3 else None)
                    out = ["none"]
                elif t == "bad_method":
                    # an invalid method selection: must be rejected and change nothing
                    bad = {"str": "montecarlo", "int": 1, "none": None, "float": 0.5}[op[2]]
                    if op[1] is None:
                        q.set_error_method(bad)
                    else:
                        self.objs[op[1]].error_method = bad
                    out = ["accepted-invalid"]
                elif t == "set_corr":
                    q.set_correlation(self.objs[op[1]], self.objs[op[2]], op[3])
                    out = ["none"]
                elif t == "reset_corr":
                    q.reset_correlations()
                    out = ["none"]
                elif t == "read_value":
                    r = self.objs[op[1]]
                    v = float(r.value)
                    out = ["gen", self.gen_of(op[1])] if r.error_method == q.ErrorMethod.MONTE_CARLO else ["val", v]
                    if out[0] == "gen":
                        out.append(v)
                elif t == "read_error":
                    r = self.objs[op[1]]
                    v = float(r.error)
                    out = ["gen", self.gen_of(op[1])] if r.error_method == q.ErrorMethod.MONTE_CARLO else ["err", v]
                    if out[0] == "gen":
                        out.append(v)
                elif t == "read_deriv":
                    out = ["deriv", float(self.objs[op[1]].derivative(self.objs[op[2]]))]
                elif t == "recalc":
                    self.objs[op[1]].recalculate()
                    out = ["none"]
                elif t == "set_global":
                    q.set_error_method(op[1] if op[2] == "str" else q.ErrorMethod(op[1]))
                    out = ["none"]
                elif t == "set_own":
                    self.objs[op[1]].error_method = op[2] if op[3] == "str" else q.ErrorMethod(op[2])
                    out = ["none"]
                elif t == "reset_own":
                    self.objs[op[1]].reset_error_method()
                    out = ["none"]
                elif t == "peek":
                    _ = self.objs[op[1]].mc
                    out = ["gen", self.gen_of(op[1])]
                elif t == "set_size":
                    self.objs[op[1]].mc.sample_size = op[2]
                    out = ["none"]
                elif t == "mc_setting":
                    # a Monte Carlo setting of quantity k (r.mc draws samples if there are none, like peek); it must not
                    # affect anything reported by the derivative method
                    mc = self.objs[op[1]].mc
                    what = op[2]
                    if what == "custom":
                        mc.use_custom_value_and_error(op[3], op[4])
                    elif what == "mode":
                        mc.use_mode_with_confidence(op[3])
                    elif what == "mean":
                        mc.use_mean_and_std()
                    elif what == "confidence":
                        mc.confidence = op[3]
                    elif what == "xrange":
                        mc.set_xrange(op[3], op[4])
                    elif what == "noxrange":
                        mc.set_xrange()
                    else:
                        raise ValueError(op)
                    out = ["gen", self.gen_of(op[1])]
                elif t == "seed":
                    import numpy as np
                    np.random.seed(op[1])      # the user re-seeds numpy: no effect on anything but Monte Carlo draws
                    out = ["none"]
                else:
                    raise ValueError(op)
            except (ValueError, TypeError, ArithmeticError) as e:
                out = ["rejected", type(e).__name__]
        self.scan_gens()
        return out


# ---- generation ---------------------------------------------------------------------------------------
VALS = [0.5, 1.0, 1.5, 2.0, 2.5, 3.0, 4.0, 5.0, 6.0, 8.0, 0.75, 1.25]
ERRS = [0.0, 0.125, 0.25, 0.5, 0.0625, 1.0]


def gen_history(rng, n_ops, mc_share=0.25, rational=True, seeds=False):
    """a history over positive measurements and the operations + - * / (division only by measurements or
    positive constants), so every formula stays defined under any change of the values"""
    ops = []
    kinds, errs = [], {}
    rho = {}                     # current correlations: kept diagonally dominant, hence positive semi-definite
    n_meas = rng.randrange(2, 4)
    seed0 = rng.choice([1, 2, 3])
    if seeds and rng.random() < 0.6:
        ops.append(["seed", seed0])          # ... possibly the same seed again later in the session
    mvals = {}
    for _ in range(n_meas):
        e = rng.choice(ERRS)
        v = rng.choice(VALS)
        ops.append(["meas", v, e])
        mvals[len(kinds)] = v
        kinds.append("meas")
        errs[len(kinds) - 1] = e
    exponents = set()                        # measurements used as exponents: they keep whole values
    frozen = set()                           # measurements under a square root: their central values stay as they are
    nodiv = set()                            # measurements with central value 0: never a divisor, exponent or radicand

    def meas_ids():
        return [i for i, k in enumerate(kinds) if k == "meas"]

    def der_ids():
        return [i for i, k in enumerate(kinds) if k == "der"]
    n_new = 0
    while len(ops) < n_ops:
        r = rng.random()
        ds = der_ids()
        if seeds and rng.random() < 0.06:
            ops.append(["seed", seed0 if rng.random() < 0.7 else rng.choice([1, 2, 3])])
            continue
        if ds and n_new < 6 and rng.random() < 0.02:
            # a stationary point: z = 0 +/- e under a square (first-order uncertainty exactly 0, yet z is uncertain)
            e = rng.choice([0.125, 0.25, 0.5])
            ops.append(["meas", 0.0, e])
            z = len(kinds)
            kinds.append("meas")
            errs[z] = e
            mvals[z] = 0.0
            frozen.add(z)
            nodiv.add(z)
            ops.append(rng.choice([["bin", "pow", ["obj", z], ["const", 2]], ["bin", "mul", ["obj", z], ["obj", z]]]))
            kinds.append("der")
            n_new += 1
            form = rng.choice(["str", "enum"])
            ops.extend([["set_own", len(kinds) - 1, "monte-carlo", form], ["read_value", len(kinds) - 1], ["read_error", len(kinds) - 1]])
            continue
        if (not ds) or (r < 0.16 and n_new < 6):
            op = rng.choice(["add", "sub", "mul", "div", "mul", "add", "pow"])
            i = rng.randrange(len(kinds))
            if rng.random() < 0.5 and ds:
                i = rng.choice(ds)            # build on an intermediate result
            if op == "div":
                second = rng.choice([["obj", rng.choice([m for m in meas_ids() if m not in nodiv])], ["const", rng.choice([2, 4, 0.5])]])
                ops.append(["bin", "div", ["obj", i], second])
            elif op == "pow" and rng.random() < 0.4 and len(meas_ids()) >= 2:
                # a measurement as the exponent (often an exact one, uncertainty 0): it stays a variable of the formula
                b, x = rng.sample(meas_ids(), 2)
                if b in nodiv or x in nodiv:
                    continue
                if b in exponents:
                    b, x = x, b
                if b not in exponents and x not in frozen:
                    if mvals[x] not in (1.0, 2.0, 3.0):
                        ops.append(["set_value", x, rng.choice([2.0, 3.0])])
                        mvals[x] = ops[-1][2]
                    if rng.random() < 0.6 and errs[x] != 0:
                        ops.append(["set_error", x, 0.0])
                        errs[x] = 0.0
                    exponents.add(x)
                    ops.append(["bin", "pow", ["obj", b], ["obj", x]])
                else:
                    ops.append(["bin", "pow", ["obj", i], ["const", rng.choice([2, 3])]])
            elif op == "pow":
                ops.append(["bin", "pow", ["obj", i], ["const", rng.choice([2, 3])]])
            elif op == "sub" and rng.random() < 0.12 and len(meas_ids()) >= 2 and n_new < 5:
                # a singular point: sqrt(a - b) at equal central values (value 0, infinite derivative-method uncertainty)
                a, b = rng.sample([m for m in meas_ids()], 2)
                if a in nodiv or b in nodiv:
                    continue
                if a in exponents or b in exponents or b in frozen:
                    continue
                frozen.update([a, b])        # (a formula whose central value is undefined is outside every property)
                if mvals[a] != mvals[b]:
                    ops.append(["set_value", b, mvals[a]])
                    mvals[b] = mvals[a]
                ops.append(["bin", "sub", ["obj", a], ["obj", b]])
                kinds.append("der")
                ops.append(["un", "sqrt", ["obj", len(kinds) - 1]])
                n_new += 1
            elif rng.random() < 0.25:
                c = ["const", rng.choice([2, 3, 0.5, 1.5])]
                tag = CL.number_tag(rng, c[1])
                if tag:
                    c.append(tag)
                ops.append(["bin", op, c, ["obj", i]] if rng.random() < 0.5 else ["bin", op, ["obj", i], c])
            elif rng.random() < 0.15:
                ops.append(["un", "neg", ["obj", i]])
            elif rng.random() < 0.2:
                # a formula that is undefined on part of the sampled range (the measurement may have an uncertainty as
                # large as its value): Monte Carlo discards those draws, reads must stay stable all the same
                ops.append(["un", "sqrt", ["obj", rng.choice([m for m in meas_ids() if m not in nodiv])]])
                frozen.add(ops[-1][2][1])
            else:
                ops.append(["bin", op, ["obj", i], ["obj", rng.randrange(len(kinds))]])
            kinds.append("der")
            n_new += 1
        elif r < 0.30:
            m = rng.choice(meas_ids())
            if m in frozen:
                continue
            ops.append(["set_value", m, rng.choice([1.0, 2.0, 3.0]) if m in exponents else rng.choice(VALS)])
            mvals[m] = ops[-1][2]
            tag = CL.number_tag(rng, ops[-1][2])
            if tag:
                ops[-1].append(tag)            # the number arrives as a numpy scalar / Fraction / bool of the same value
        elif r < 0.38:
            m = rng.choice(meas_ids())
            e = rng.choice(ERRS + [-0.5])
            ops.append(["set_error", m, e])
            if e >= 0:
                errs[m] = e
            tag = CL.number_tag(rng, e)
            if tag:
                ops[-1].append(tag)
        elif r < 0.46:
            cand = [m for m in meas_ids() if errs[m] > 0]
            if len(cand) >= 2:
                a, b = rng.sample(cand, 2)
                val = rng.choice([0.5, -0.5, 0.25, -0.75, 1.0, -1.0, 0.0])
                key = (min(a, b), max(a, b))
                trial = dict(rho)
                trial[key] = val
                if all(sum(abs(v) for k2, v in trial.items() if i in k2) <= 1 for i in (a, b)):
                    rho = trial
                    ops.append(["set_corr", a, b, val])
        elif r < 0.49:
            ops.append(["reset_corr"])
            rho = {}
        elif r < 0.62:
            ops.append(["read_value", rng.choice(ds)])
        elif r < 0.72:
            ops.append(["read_error", rng.choice(ds)])
        elif r < 0.78:
            ops.append(["read_deriv", rng.choice(ds), rng.choice(meas_ids())])
        elif r < 0.86:
            ops.append(["recalc", rng.choice(ds)])
        elif r < 0.86 + 0.14 * mc_share * 4 / 4 and rng.random() < mc_share * 4:
            k = rng.randrange(9)
            meth = rng.choice(["derivative", "monte-carlo"])
            form = rng.choice(["str", "enum"])
            if k == 5:
                d = rng.choice(ds)
                ops.append(rng.choice([["mc_setting", d, "custom", rng.choice(VALS), rng.choice(ERRS)],
                                       ["mc_setting", d, "mode", rng.choice([None, 0.5, 0.9])],
                                       ["mc_setting", d, "mean"], ["mc_setting", d, "confidence", rng.choice([0.5, 0.8])],
                                       ["mc_setting", d, "xrange", 0.25, 64.0], ["mc_setting", d, "noxrange"]]))
            elif k == 8:
                ops.append(["bad_method", rng.choice([None] + ds), rng.choice(["str", "int", "none", "float"])])
            elif k >= 6:
                # one simulation is kept across method switches: read under Monte Carlo, switch away and back, read again
                d = rng.choice(ds)
                rd = rng.choice(["read_value", "read_error"])
                ops.extend(rng.choice([
                    [["set_own", d, "monte-carlo", form], [rd, d], ["set_own", d, "derivative", form], ["read_error", d],
                     ["set_own", d, "monte-carlo", form], [rd, d]],
                    [["set_global", "monte-carlo", form], [rd, d], ["set_own", d, "monte-carlo", form], [rd, d],
                     ["reset_own", d], [rd, d], ["set_global", "derivative", form]],
                    [["set_own", d, "monte-carlo", form], [rd, d], ["reset_own", d], ["set_own", d, "monte-carlo", form], [rd, d]],
                ]))
            elif k == 0:
                ops.append(["set_global", meth, form])
            elif k == 1:
                ops.append(["set_own", rng.choice(ds), meth, form])
            elif k == 2:
                ops.append(["reset_own", rng.choice(ds)])
            elif k == 3:
                ops.append(["peek", rng.choice(ds)])
            else:
                ops.append(["set_size", rng.choice(ds), rng.choice([20, 30, 50])])
        else:
            ops.append(["read_value", rng.choice(ds)])
    return ops


def run_history(ops):
    s = Session()
    return s, [s.run(op) for op in ops]


# ---- Coq encoding --------------------------------------------------------------------------------------
def coq_op(op, I):
    t = op[0]
    if t == "meas":
        return "(New oq {})".format(CL.coq_obj(("meas", float(op[1]), float(op[2])), I))
    if t == "un":
        return "(New oq {})".format(CL.coq_obj(("un", op[1], op[2]), I))
    if t == "bin":
        return "(New oq {})".format(CL.coq_obj(("bin", op[1], op[2], op[3]), I))
    if t == "set_value":
        return "(SetValue oq {} {})".format(op[1], CL.coq_num(op[2], I))
    if t == "set_error":
        return "(SetError oq {} {})".format(op[1], CL.coq_num(op[2], I))
    if t == "set_corr":
        return "(SetCorr oq {} {} {})".format(op[1], op[2], CL.coq_num(op[3], I))
    if t == "reset_corr":
        return "(ResetCorr oq)"
    if t == "read_value":
        return "(ReadValue oq {})".format(op[1])
    if t == "read_error":
        return "(ReadError oq {})".format(op[1])
    if t == "read_deriv":
        return "(ReadDeriv oq {} {})".format(op[1], op[2])
    if t == "recalc":
        return "(Recalc oq {})".format(op[1])
    if t == "set_global":
        return "(SetGlobal oq {})".format(METHODS[op[1]])
    if t == "set_own":
        return "(SetOwn oq {} {})".format(op[1], METHODS[op[2]])
    if t == "reset_own":
        return "(ResetOwn oq {})".format(op[1])
    if t == "peek":
        return "(Peek oq {})".format(op[1])
    if t == "set_size":
        return "(SetSampleSize oq {})".format(op[1])
    if t == "mc_setting":
        return "(Peek oq {})".format(op[1])      # r.mc: in the model's terms a Monte Carlo setting is a peek at the samples
    raise ValueError(op)


def coq_obs(o):
    if o[0] == "none":
        return "XNone"
    if o[0] == "rejected":
        return "XRejected"
    if o[0] in ("val", "err", "deriv") and not math.isfinite(o[1]):
        return "XAny"
    if o[0] == "val":
        return "(XVal {})".format(qlit(o[1]))
    if o[0] == "err":
        return "(XErr {})".format(qlit(o[1]))
    if o[0] == "deriv":
        return "(XDeriv {})".format(qlit(o[1]))
    if o[0] == "gen":
        return "(XGen {}%nat)".format(o[1] if o[1] is not None else 999999)
    raise ValueError(o)


def coq_hcase(ops, outs, I):
    scale = max([1.0] + [abs(o[1]) for o in outs if o[0] in ("val", "err", "deriv") and math.isfinite(o[1])])
    body = coq_list(["({}, {})".format(I(coq_op(op, I)), coq_obs(o)) for op, o in zip(ops, outs)
                     if op[0] not in ("seed", "bad_method")])
    return "({}, {})".format(qlit(Fraction(scale) / 10 ** 9), body)


def shards_for(cases, per=25):
    shards, index = [], []
    for k in range(0, len(cases), per):
        chunk = cases[k:k + per]
        I = Interner()
        body = coq_list([coq_hcase(ops, outs, I) for ops, outs in chunk])
        shards.append(HEADER + I.text() + "Definition cases : list hcase := {}.\n".format(body) +
                      "Eval vm_compute in (bad_indices check_hcase cases).\n")
        index.append(list(range(k, k + len(chunk))))
    return shards, index


# ---- oracles --------------------------------------------------------------------------------------------
def rebuild_afresh(s, k, memo=None):
    """build the formula of object k again from the CURRENT measurement objects through the public API
    (new objects for every calculated quantity it was assembled from)"""
    memo = {} if memo is None else memo
    if k in memo:
        return memo[k]
    obj = s.objs[k]
    if s.kinds[k] == "meas":
        return obj
    f = obj._formula
    q = s.q
    from qexpy.data.data import Constant, DerivedValue, MeasuredValue
    args = []
    for operand in f.operands:
        if isinstance(operand, Constant):
            args.append(operand.value)
        else:
            idx = [i for i, o in enumerate(s.objs) if o is operand]
            args.append(rebuild_afresh(s, idx[0], memo))
    opn = f.operator
    res = {"sqrt": lambda a: q.sqrt(a), "neg": lambda a: -a, "add": lambda a, b: a + b, "sub": lambda a, b: a - b, "mul": lambda a, b: a * b,
           "div": lambda a, b: a / b, "pow": lambda a, b: a ** b}[opn](*args)
    memo[k] = res
    return res


def close(a, b, tol=1e-11):
    if math.isnan(a) or math.isnan(b):
        return math.isnan(a) and math.isnan(b)
    if math.isinf(a) or math.isinf(b):
        return a == b
    return abs(a - b) <= tol * (abs(a) + abs(b)) + 1e-300


def oracle_history(ops, check_recalc=True, check_methods=True):
    """replays a history; after every recalculate compares the object with the same formula built afresh; checks
    stability of repeated reads, method selection and determinism of derivative-method reads.
    Returns None or a description."""
    s = Session()
    q = s.q
    own = {}
    glob = "derivative"
    gens = {}
    lastread = {}
    for n, op in enumerate(ops):
        out = s.run(op)
        t = op[0]
        # numbers a quantity has reported by the derivative method stay what they are until THAT quantity is recalculated
        # (or its method changes): recalculating another result that is built on it does not touch it
        if t == "recalc":
            for key in [key for key in lastread if key[0] == op[1]]:
                lastread.pop(key)
        elif t in ("set_global", "set_own", "reset_own", "bad_method"):
            lastread.clear()
        elif check_recalc and t in ("read_value", "read_error") and out[0] in ("val", "err"):
            key = (op[1], out[0])
            if key in lastread and not close(lastread[key], out[1], 1e-13):
                return "step {} {}: quantity {} reported {} before and {} now although it was not recalculated in between".format(
                    n, op, op[1], lastread[key], out[1])
            lastread[key] = out[1]
        # one simulation is kept until recalculation or a change of the sample size
        for k, kind in enumerate(s.kinds):
            if kind == "der":
                g = s.gen_of(k)
                if t == "recalc" or (t == "set_size" and op[1] == k):
                    gens.pop(k, None)          # (recalculate() reaches the quantities a result is built from as well)
                if g is not None:
                    if check_recalc and k in gens and gens[k] != g:
                        return "step {} {}: the Monte Carlo samples of quantity {} were drawn again (simulation {} replaced by {}) " \
                               "although nothing was recalculated and no sample size changed".format(n, op, k, gens[k], g)
                    gens[k] = g
        if t == "set_global":
            glob = op[1]
        elif t == "set_own":
            own[op[1]] = op[2]
        elif t == "reset_own":
            own.pop(op[1], None)
        if t == "bad_method" and out[0] != "rejected":
            return "step {} {}: an invalid error method was accepted".format(n, op)
        if check_methods and t in ("set_global", "set_own", "reset_own", "read_value", "bad_method"):
            for k, kind in enumerate(s.kinds):
                if kind == "der":
                    eff = s.objs[k].error_method.value
                    exp = own.get(k, glob)
                    if eff != exp:
                        return "step {} {}: quantity {} reports by method {!r} but its own selection is {!r} and the global setting {!r}".format(
                            n, op, k, eff, own.get(k), glob)
        if t == "recalc" and check_recalc:
            k = op[1]
            r = s.objs[k]
            with warnings.catch_warnings():
                warnings.simplefilter("ignore")
                saved_own = own.get(k)
                asis = (float(r.value), float(r.error)) if own.get(k, glob) == "derivative" else None
                r.error_method = "derivative"
                fresh = rebuild_afresh(s, k)
                fresh.error_method = "derivative"
                pairs = [("value", float(r.value), float(fresh.value)), ("error", float(r.error), float(fresh.error))]
                if asis is not None:
                    # the derivative method is in force for this quantity (own selection or global setting): what it
                    # reports as it stands is the fresh derivative-method result
                    pairs += [("reported value (derivative method in force)", asis[0], float(fresh.value)),
                              ("reported uncertainty (derivative method in force)", asis[1], float(fresh.error))]
                for m, kind in enumerate(s.kinds):
                    if kind == "meas":
                        pairs.append(("derivative w.r.t. measurement {}".format(m),
                                      float(r.derivative(s.objs[m])), float(fresh.derivative(s.objs[m]))))
                if saved_own is None:
                    r.reset_error_method()
                else:
                    r.error_method = saved_own
                # the comparison itself read r by the derivative method: that is a read, not a change
            for what, a, b in pairs:
                if not close(a, b):
                    return "step {} {}: after recalculate() the {} of quantity {} is {} but the same formula built afresh gives {}".format(
                        n, op, what, k, a, b)
        if t in ("read_value", "read_error") and out[0] == "gen" and out[1] is None and math.isfinite(out[2]):
            return "step {} {}: the Monte Carlo method is in force for quantity {} and it reports {}, but no simulation is " \
                   "stored for it".format(n, op, op[1], out[2])
        if check_methods and t == "read_value" and out[0] != "rejected":
            r = s.objs[op[1]]
            with warnings.catch_warnings():
                warnings.simplefilter("ignore")
                v, e = float(r.value), float(r.error)
                if math.isfinite(v) and math.isfinite(e) and e >= 0:
                    shown, ref = str(r), str(q.Measurement(v, e))
                    if shown.strip() != ref.strip():
                        return "step {} {}: quantity {} prints as {!r} but reports value {} and uncertainty {} (which print as {!r})".format(
                            n, op, op[1], shown, v, e, ref)
        if t in ("read_value", "read_error") and out[0] != "rejected":
            again = s.run(op)
            if again != out and not (len(out) == len(again) and out[0] == again[0] and all(
                    a == b or (isinstance(a, float) and isinstance(b, float) and math.isnan(a) and math.isnan(b))
                    for a, b in zip(out[1:], again[1:]))):
                return "step {} {}: two successive reads differ: {} then {}".format(n, op, out, again)
    return None


def determinism_oracle(ops, rng):
    """derivative-method reads must not depend on the global method, the random state, Monte Carlo settings or
    method switches: replay the history with all of those removed and compare every derivative-method number
    of quantities that were recalculated (or never read) since the last change of a source"""
    import numpy as np
    plain = []
    keep = []
    for i, op in enumerate(ops):
        if op[0] in ("set_global", "set_own", "reset_own", "peek", "set_size", "seed", "mc_setting", "bad_method"):
            continue
        plain.append(op)
        keep.append(i)
    def final_numbers(history):
        np.random.seed(rng.randrange(2 ** 31))
        s, outs = run_history(history)
        res = {"reads": outs}
        for k in range(len(s.objs)):
            if s.kinds[k] != "der":
                continue
            a = s.objs[k]
            with warnings.catch_warnings():
                warnings.simplefilter("ignore")
                # only this quantity is switched to the derivative method (and switched back): the quantities it is
                # built from keep whatever method the history left them with
                before = a.error_method if a._DerivedValue__error_method != s.q.ErrorMethod.AUTO else None
                a.recalculate()
                a.error_method = "derivative"
                res[k] = (float(a.value), float(a.error))
                if before is None:
                    a.reset_error_method()
                else:
                    a.error_method = before
        return res
    # (one world at a time: a new session clears the library's register of values)
    r1 = final_numbers(ops)
    r2 = final_numbers(plain)
    # every number read by the derivative method DURING the history is the one read at the same point of the history
    # without method switches, Monte Carlo settings and seeds
    # (compared as long as no source has changed: afterwards a read may legitimately return the numbers buffered by an
    #  earlier read, and which reads went to the derivative method differs between the two histories)
    o1, o2 = r1.pop("reads"), r2.pop("reads")
    for j, i in enumerate(keep):
        a, b = o1[i], o2[j]
        if ops[i][0] in ("set_value", "set_error", "set_corr", "reset_corr"):
            break
        if a[0] in ("val", "err", "deriv") and b[0] == a[0] and not close(a[1], b[1], 1e-12):
            return "step {} {}: the derivative method reports {} here, but {} at the same point of the same history without " \
                   "method switches / Monte Carlo settings / seeds".format(i, ops[i], a[1], b[1])
    for k in sorted(r1):
        # (equal up to the order in which the terms are summed: the library iterates over a set of random ids)
        if k not in r2 or not (close(r1[k][0], r2[k][0], 1e-12) and close(r1[k][1], r2[k][1], 1e-12)):
            return "quantity {}: derivative-method result {} after a history with method switches / Monte Carlo use, " \
                   "but {} after the same history without them".format(k, r1[k], r2.get(k))
    return None


def mc_correlation_follows():
    """under Monte Carlo, a recalculated result follows a CHANGE OF CORRELATIONS between its sources: deterministic
    scenarios (numpy seeded, 2000 draws) in which the expected uncertainty changes by a factor >= 2.6; None or a description"""
    import numpy as np
    for form, r1, r2 in (("a+b", 0.75, -0.75), ("a-b", -0.75, 0.75), ("a+b", -0.75, 0.75), ("2*a+2*b", 0.75, -0.75)):
        CL.reset_world()
        q = CL.q()
        np.random.seed(12345)
        q.set_monte_carlo_sample_size(2000)
        a, b = q.Measurement(5.0, 0.5), q.Measurement(3.0, 0.5)
        q.set_correlation(a, b, r1)
        r = {"a+b": lambda: a + b, "a-b": lambda: a - b, "2*a+2*b": lambda: a * 2 + b * 2}[form]()
        r.error_method = "monte-carlo"
        with warnings.catch_warnings():
            warnings.simplefilter("ignore")
            e1 = float(r.error)
            q.set_correlation(a, b, r2)
            r.recalculate()
            e2 = float(r.error)
            fresh = {"a+b": lambda: a + b, "a-b": lambda: a - b, "2*a+2*b": lambda: a * 2 + b * 2}[form]()
            fresh.error_method = "monte-carlo"
            e3 = float(fresh.error)
        sign = 1 if "+" in form else -1
        k = 2 if form.startswith("2") else 1
        exp1 = k * math.sqrt(0.5 + 2 * sign * r1 * 0.25)
        exp2 = k * math.sqrt(0.5 + 2 * sign * r2 * 0.25)
        for what, got, want in (("before the change", e1, exp1), ("after the change and recalculate()", e2, exp2),
                                ("of the same formula built afresh", e3, exp2)):
            if not abs(got - want) <= 0.15 * want:          # 2000 draws: the sample std is within ~5 % (3 sigma)
                CL.reset_world()
                return ("Monte Carlo, {} with correlation {} then {}: the uncertainty {} is {} but the stated model gives {}"
                        .format(form, r1, r2, what, got, want))
    CL.reset_world()
    return None
