"""Helpers shared by the C04 and C10 property modules: dyadic number generators, exact rational
reference statistics, construction of quantities on the implementation."""
import math
import warnings
from fractions import Fraction

F = Fraction


def fx(h):
    """hex string -> float"""
    return float.fromhex(h)


def hx(x):
    return float(x).hex()


def fr(x):
    """a double (or its hex string) as the exact rational it denotes"""
    if isinstance(x, str):
        x = float.fromhex(x)
    return Fraction(float(x))


def dyadic(rng, bits=6, frac=4, positive=False, nonzero=False):
    """k / 2^j with |k| < 2^bits, j <= frac"""
    while True:
        k = rng.randrange(0 if positive else -(1 << bits) + 1, 1 << bits)
        j = rng.randrange(0, frac + 1)
        v = k / float(1 << j)
        if nonzero and v == 0:
            continue
        return v


def exact_product(a, b):
    """True when the double product a*b is exact"""
    return Fraction(a) * Fraction(b) == Fraction(a * b)


# ---- exact reference statistics (textbook definitions over Fraction) -------------------------------
def mean(xs):
    return sum(xs, F(0)) / len(xs)


def var(xs):
    m = mean(xs)
    return sum(((x - m) ** 2 for x in xs), F(0)) / (len(xs) - 1)


def cov(xs, ys):
    mx, my = mean(xs), mean(ys)
    return sum(((x - mx) * (y - my) for x, y in zip(xs, ys)), F(0)) / (len(xs) - 1)


def wmean(xs, ss):
    return sum((x / s ** 2 for x, s in zip(xs, ss)), F(0)) / sum((1 / s ** 2 for s in ss), F(0))


def perr_sq(ss):
    return 1 / sum((1 / s ** 2 for s in ss), F(0))


def close(a, b, rel=1e-9, atol=0):
    """|a - b| <= rel * (|a| + |b|) + atol, on exact rationals"""
    a, b = Fraction(a), Fraction(b)
    return abs(a - b) <= Fraction(rel) * (abs(a) + abs(b)) + Fraction(atol)


def sqrt_close(x, sq, rel=1e-9):
    """the double x is the square root of the rational sq (compared through the squares)"""
    if x != x or x in (float("inf"), float("-inf")) or x < 0:
        return False
    return close(Fraction(x) ** 2, sq, 2 * rel)


# ---- reading arrays ---------------------------------------------------------------------------------
def gen_readings(rng, n=None, kind=None):
    """a dyadic reading array (list of floats) of length 2..12"""
    n = n or rng.choice([2, 2, 3, 3, 4, 5, 6, 7, 8, 10, 12])
    kind = kind or rng.choice(["small", "small", "offset", "fine", "wide", "exactstd"])
    if kind == "exactstd":                      # [m-d, m, m+d]: std = d exactly (a dyadic double)
        m, d = dyadic(rng, 7, 2), dyadic(rng, 4, 3, positive=True, nonzero=True)
        xs = [m - d, m, m + d]
        rng.shuffle(xs)
        return xs
    if kind == "small":
        xs = [dyadic(rng, 5, 2) for _ in range(n)]
    elif kind == "offset":                      # large offset, small spread
        off = float(rng.choice([1 << 10, 1 << 16, 1 << 20, 1 << 24, 10 ** 6, 10 ** 8, -(10 ** 7), 10 ** 9, 1 << 30]))
        xs = [off + dyadic(rng, 5, 3) for _ in range(n)]
    elif kind == "fine":
        xs = [dyadic(rng, 10, 10) for _ in range(n)]
    else:
        xs = [dyadic(rng, 12, 0) * rng.choice([1.0, 16.0, 0.0625]) for _ in range(n)]
    if len(set(xs)) == 1:                       # keep a spread (constant arrays are generated on purpose elsewhere)
        xs[0] += 1.0
    return xs


def collinear(rng, xs):
    """ys = k*xs + c computed exactly in doubles (dyadic k, c with few bits)"""
    for _ in range(50):
        k = dyadic(rng, 4, 2, nonzero=True)
        c = dyadic(rng, 5, 1)
        ys = [k * x + c for x in xs]
        if all(Fraction(y) == Fraction(k) * Fraction(x) + Fraction(c) for x, y in zip(xs, ys)):
            return k, c, ys
    return 1.0, 0.0, list(xs)


def typed_number(v, tag):
    """the double v as a Python float / int / bool / Fraction or a numpy scalar (all are numbers.Real)"""
    import numpy as np
    if tag == "float":
        return v
    if tag == "int":
        return int(v)
    if tag == "bool":
        return bool(v)
    if tag == "fraction":
        return Fraction(v)
    return {"float64": np.float64, "float32": np.float32, "float16": np.float16, "int64": np.int64, "int32": np.int32,
            "int16": np.int16}[tag](v)


def mutate_inputs(keep):
    """modify, in place, every mutable container that was handed to a constructor (the caller's own list / array):
    a measurement is a snapshot of the readings and uncertainties it was recorded from"""
    import numpy as np
    for c in keep:
        try:
            if isinstance(c, np.ndarray):
                if c.size:
                    c *= 3
                    c[0] = 77
                    c[-1] = c[0]
            elif isinstance(c, list):
                for i in range(len(c)):
                    c[i] = 77.0 if i % 2 else 0.5
                c.append(5.0)
                c.reverse()
        except (ValueError, TypeError):
            pass


def build(qj, keep=None):
    """construct one quantity on the implementation from its JSON description; an optional trailing dict gives
    name (str), via ("array": the quantity is an element of a MeasurementArray), etype (number type of the error),
    buffer (a numpy array to be overwritten with the readings and handed to the constructor: a re-used acquisition
    buffer).  [keep] collects the mutable containers handed to the constructor."""
    import qexpy as q
    from qexpy.data.data import Constant
    opts = qj[-1] if isinstance(qj[-1], dict) else {}
    kw = {"name": opts["name"]} if opts.get("name") else {}
    t = qj[0]
    with warnings.catch_warnings():
        warnings.simplefilter("ignore")
        if t == "single":
            v = fx(qj[1])
            e = None if qj[2] is None else typed_number(fx(qj[2]), opts.get("etype", "float"))
            if opts.get("via") == "array":
                arr = q.MeasurementArray([v, v + 1.0], None if e is None else [e, e], **kw)
                return arr[0]
            return q.Measurement(v, **kw) if e is None else q.Measurement(v, e, **kw)
        if t == "repeated":
            xs = [fx(h) for h in qj[1]]
            if opts.get("buffer") is not None:
                buf = opts["buffer"]
                buf[:] = xs
                xs = buf
            else:
                xs = make_container(xs, qj[3])
            if keep is not None:
                keep.append(xs)
            e = qj[2]
            if e is None:
                return q.Measurement(xs, **kw)
            if isinstance(e, list):
                es = [fx(h) for h in e]
                et = opts.get("etype", "float")
                if et == "ndarray":
                    import numpy as np
                    es = np.array(es)
                elif et == "int" and all(float(x).is_integer() for x in es):
                    es = [int(x) for x in es]
                if keep is not None:
                    keep.append(es)
                return q.Measurement(xs, es, **kw)
            return q.Measurement(xs, typed_number(fx(e), opts.get("etype", "float")), **kw)
        if t == "derived":                      # value * 1 is a DerivedValue with the same error
            return q.Measurement(fx(qj[1]), fx(qj[2]), **kw) * 1
        if t == "constant":
            return Constant(fx(qj[1]))
    raise ValueError(qj)


def finite(x):
    try:
        x = float(x)
    except Exception:  # noqa
        return False
    return not (math.isnan(x) or math.isinf(x))


# ---- Monte Carlo propagation with injected offsets ------------------------------------------------------------------
DEFAULT_OFFSETS = [-1.5, 0.25, 1.5, -0.25]


class fixed_offsets:
    """while active, np.random.normal(0, 1, size) returns the given offsets (repeated / truncated to size)"""

    def __init__(self, offsets):
        self.offsets = [float(o) for o in offsets]

    def __enter__(self):
        import numpy as np
        self.orig = np.random.normal
        offs = np.array(self.offsets)
        np.random.normal = lambda loc=0.0, scale=1.0, size=None: np.resize(offs, size)
        return self

    def __exit__(self, *a):
        import numpy as np
        np.random.normal = self.orig


def mc_propagate(d, sample_size):
    """evaluate the calculated quantity d with the Monte Carlo method -> (value, error, samples)"""
    with warnings.catch_warnings():
        warnings.simplefilter("ignore")
        d.error_method = "monte-carlo"
        d.mc.sample_size = sample_size
        value, error = d.value, d.error
        samples = [float(x) for x in d.mc.samples()]
    return float(value), float(error), samples


def mc_injected(a, k, c, offsets):
    """samples of k*a+c (all offsets) and of a*a (first two offsets) with the offsets injected"""
    with fixed_offsets(offsets):
        _, _, lin = mc_propagate(k * a + c, len(offsets))
        _, _, sq = mc_propagate(a * a, min(2, len(offsets)))
    return lin, sq


def gen_offsets(rng):
    """two dyadic offsets and their negatives (mean exactly 0), shuffled"""
    o1 = dyadic(rng, 5, 4, positive=True, nonzero=True)
    o2 = dyadic(rng, 5, 4, positive=True, nonzero=True)
    offs = [o1, -o1, o2, -o2]
    rng.shuffle(offs)
    return offs


# ---- containers of readings: lists, numpy arrays of several dtypes, lists of numpy scalars, mixed int / float lists ----
DTYPES = {"ndarray": "float64", "f64": "float64", "f32": "float32", "f16": "float16",
          "i64": "int64", "i32": "int32", "i16": "int16"}
CONTAINERS = ["list", "ndarray", "f32", "f16", "i64", "i32", "i16", "npscalars", "mixed"]
SCALAR_CYCLE = ["float64", "float32", "int64", "float16", "int16"]


def representable(x, dtype):
    """the double x is a finite number of the numpy dtype"""
    import numpy as np
    with warnings.catch_warnings():
        warnings.simplefilter("ignore")
        if dtype.startswith("int"):
            if not float(x).is_integer():
                return False
            info = np.iinfo(dtype)
            return info.min <= x <= info.max and abs(x) <= 2.0 ** 52
        y = float(np.dtype(dtype).type(x))
    return y == x and not math.isinf(y)


def make_container(xs, container):
    """the readings (doubles, representable in the container's number type) in the requested container"""
    import numpy as np
    if container == "list":
        return list(xs)
    if container in DTYPES:
        dt = DTYPES[container]
        if not all(representable(x, dt) for x in xs):
            raise ValueError("readings not representable as " + dt)
        return np.array([int(x) for x in xs] if dt.startswith("int") else xs, dtype=dt)
    if container == "npscalars":            # a list of numpy scalars of several types, deterministic in the position
        out = []
        for i, x in enumerate(xs):
            dt = SCALAR_CYCLE[i % len(SCALAR_CYCLE)]
            if not representable(x, dt):
                dt = "float64"
            out.append(np.dtype(dt).type(int(x) if dt.startswith("int") else x))
        return out
    if container == "mixed":                # Python ints where the reading is a whole number, floats otherwise
        return [int(x) if float(x).is_integer() and i % 3 != 2 else float(x) for i, x in enumerate(xs)]
    raise ValueError(container)


def cast_readings(xs, container):
    """the readings as they are after rounding into the container's number type (what the implementation is
    handed), or None when that is not finite / has no spread"""
    import numpy as np
    if container not in DTYPES or DTYPES[container] == "float64":
        return list(xs)
    dt = DTYPES[container]
    with warnings.catch_warnings():
        warnings.simplefilter("ignore")
        if dt.startswith("int"):
            ys = [float(round(x)) for x in xs]
            if not all(representable(y, dt) for y in ys):
                return None
        else:
            ys = [float(np.dtype(dt).type(x)) for x in xs]
    if not all(finite(y) for y in ys) or len(set(ys)) < 2:
        return None
    return ys


def gen_typed_readings(rng, container, n=None):
    """readings for a narrow number type, biased to the precision limit of the type (2^24 for float32, 2^11 for
    float16, the top of the range for small ints); always returned as they are in that type"""
    n = n or rng.choice([2, 3, 3, 4, 5, 6, 8, 12])
    for _ in range(40):
        u = rng.random()
        if container == "f32":
            if u < 0.45:
                base = 2.0 ** 24 - rng.randrange(0, 7)
                xs = [base + rng.randrange(0, 6) for _ in range(n)]
            elif u < 0.75:
                base = float(rng.choice([20000, 4096, 100000, -65536]))
                xs = [base + dyadic(rng, 5, 6) for _ in range(n)]
            else:
                xs = [dyadic(rng, 8, 6) for _ in range(n)]
        elif container == "f16":
            if u < 0.45:
                base = 2048.0 - rng.randrange(0, 9)
                xs = [base + rng.randrange(0, 10) for _ in range(n)]
            elif u < 0.75:
                xs = [float(rng.choice([100, 512, -1000])) + dyadic(rng, 4, 1) for _ in range(n)]
            else:
                xs = [dyadic(rng, 5, 3) for _ in range(n)]
        elif container == "i16":
            base = rng.choice([0, 0, 1000, 32760, -32760])
            xs = [float(max(-32768, min(32767, base + rng.randrange(-9, 8)))) for _ in range(n)]
        elif container == "i32":
            base = rng.choice([0, 10 ** 6, 2 ** 31 - 20, -(2 ** 31) + 20, 2 ** 24])
            xs = [float(base + rng.randrange(-12, 13)) for _ in range(n)]
        elif container == "i64":
            base = rng.choice([0, 10 ** 9, 2 ** 32, -(2 ** 31) - 77, 2 ** 24 + 1])     # beyond ~2^33 float64 itself is ill-conditioned at 1e-9
            xs = [float(base + rng.randrange(-30, 31)) for _ in range(n)]
        else:
            xs = gen_readings(rng, n=n, kind=rng.choice(["small", "offset", "fine", "wide"]))
        ys = cast_readings(xs, container)
        if ys is not None:
            return ys
    return [1.0, 2.0] + [3.0] * (n - 2)


def pick_container(rng, xs, narrow=0.4):
    """a container in which the given readings are exactly representable"""
    if rng.random() >= narrow:
        return rng.choice(["list", "ndarray"])
    ok = [c for c in CONTAINERS if c not in DTYPES or all(representable(x, DTYPES[c]) for x in xs)]
    return rng.choice(ok)


def build_table(table, aliasing=None):
    """the quantities of a table.  aliasing = None | "mutate" (every caller-side container is modified in place after
    all quantities are recorded) | "buffer" (plain float64 reading arrays of one length are recorded one after the
    other from ONE re-used numpy buffer, and the containers are modified afterwards as well)"""
    import numpy as np
    keep, objs, buffers = [], [], {}
    for qj in table:
        if aliasing == "buffer" and qj[0] == "repeated" and qj[3] in ("ndarray", "list") and qj[2] is None:
            n = len(qj[1])
            buf = buffers.setdefault(n, np.empty(n))
            opts = dict(qj[-1]) if isinstance(qj[-1], dict) else {}
            opts["buffer"] = buf
            qj = [x for x in qj if not isinstance(x, dict)] + [opts]
        objs.append(build(qj, keep if aliasing else None))
    if aliasing:
        mutate_inputs(keep)
    return objs
