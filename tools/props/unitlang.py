"""Shared by C12 and C13: an independent reader of the unit grammar (the oracle's reference), the sentence /
corruption / exponent-map generators, runners of the implementation, and the Coq encoding of cases.

Nothing here consults the Coq model.  The reader works on Python strings with fractions.Fraction."""
import re
from fractions import Fraction

DOT = "⋅"
OPS = "*/" + DOT
EXH_ALPHABET = ["a", "b", "^", "-", "1", "2", "*", "/", "(", ")", DOT]   # same order as Model/UnitSyntaxCases.alphabet


# ---------------------------------------------------------------------------------------------------------
# the reference reader
#   expr   := term (op term)*                 op := '*' | '/' | dot
#   term   := factor+                          (juxtaposition binds tighter than the explicit operators)
#   factor := SYMBOL | SYMBOL '^' INT | '(' expr-without-parentheses ')'
#   SYMBOL := [a-zA-Z]+   INT := '-'? [0-9]+
# extension (what the library's own printers emit, accepted by design):
#   expr   := '1' '/' term (op term)*    and    factor := SYMBOL '^(' INT '/' [0-9]+ ')'   (denominator non-zero)
# ---------------------------------------------------------------------------------------------------------
class _NotASentence(Exception):
    pass


_SYM = re.compile(r"[a-zA-Z]+")
_INT = re.compile(r"-?[0-9]+")
_FRAC = re.compile(r"\((-?[0-9]+)/([0-9]+)\)")


def _add(into, other, sign):
    for k, v in other.items():
        into[k] = into.get(k, Fraction(0)) + sign * v


def _factor(s, i, ext, inner):
    """returns (dict, next index)"""
    if i < len(s) and s[i] == "(":
        if inner:
            raise _NotASentence()          # no parentheses inside parentheses
        d, j = _expr(s, i + 1, ext, True)
        if j >= len(s) or s[j] != ")":
            raise _NotASentence()
        return d, j + 1
    m = _SYM.match(s, i)
    if not m:
        raise _NotASentence()
    sym, j = m.group(), m.end()
    if j < len(s) and s[j] == "^":
        mi = _INT.match(s, j + 1)
        if mi:
            return {sym: Fraction(int(mi.group()))}, mi.end()
        mf = _FRAC.match(s, j + 1) if ext else None
        if mf and int(mf.group(2)) != 0:
            return {sym: Fraction(int(mf.group(1)), int(mf.group(2)))}, mf.end()
        raise _NotASentence()
    return {sym: Fraction(1)}, j


def _term(s, i, ext, inner):
    d, i = _factor(s, i, ext, inner)
    d = dict(d)
    while i < len(s) and (s[i] == "(" or s[i].isascii() and s[i].isalpha()):
        f, i = _factor(s, i, ext, inner)
        _add(d, f, 1)
    return d, i


def _expr(s, i, ext, inner):
    total = {}
    if ext and s.startswith("1/", i):
        d, i = _term(s, i + 2, ext, inner)
        _add(total, d, -1)
    else:
        d, i = _term(s, i, ext, inner)
        _add(total, d, 1)
    while i < len(s) and s[i] in OPS:
        sign = -1 if s[i] == "/" else 1
        d, i = _term(s, i + 1, ext, inner)
        _add(total, d, sign)
    return total, i


def read(s, ext=False):
    """the exponents of [s] read with conventional precedence, or None when [s] is not a sentence"""
    try:
        d, i = _expr(s, 0, ext, False)
    except _NotASentence:
        return None
    if i != len(s):
        return None
    return d


def nonzero(d):
    return {k: Fraction(v) for k, v in d.items() if v != 0}


# ---------------------------------------------------------------------------------------------------------
# the implementation
# ---------------------------------------------------------------------------------------------------------
def impl_parse(s):
    """None (any exception) or the ordered list [(symbol, exponent)] ; "weird" for a non-string key"""
    import qexpy.utils.units as U
    try:
        d = U.parse_unit_string(s)
    except Exception:  # noqa
        return None
    out = []
    for k, v in d.items():
        if not isinstance(k, str) or isinstance(v, bool) or not isinstance(v, (int, float)):
            return "weird"
        out.append((k, v))
    return out


def clear_global_state():
    import qexpy as q
    q.clear_unit_definitions()
    q.set_unit_style(q.UnitStyle.EXPONENTS)


def judge(s):
    """the C12 oracle on one string: None or a description of the violation"""
    base, ext = read(s, False), read(s, True)
    got = impl_parse(s)
    if got == "weird":
        return "parse_unit_string({!r}) returned a dictionary with a non-string key or non-numeric exponent".format(s)
    gd = None if got is None else nonzero({k: Fraction(v).limit_denominator(10 ** 6) for k, v in got})
    if base is not None:
        if got is None:
            return "{!r} is a sentence of the grammar (exponents {}) but is rejected".format(s, _show(nonzero(base)))
        if gd != nonzero(base):
            return "{!r} read with conventional precedence has exponents {} but the library gives {}".format(
                s, _show(nonzero(base)), _show(gd))
        return None
    if ext is not None:
        if got is not None and gd != nonzero(ext):
            return "{!r} (library's own notation) means {} but the library gives {}".format(
                s, _show(nonzero(ext)), _show(gd))
        return None
    if got is not None:
        return "{!r} is not a sentence of the grammar but is accepted with exponents {}".format(s, _show(gd))
    return None


def _show(d):
    return "{" + ", ".join("{}: {}".format(k, v) for k, v in sorted(d.items())) + "}"


# ---------------------------------------------------------------------------------------------------------
# generators
# ---------------------------------------------------------------------------------------------------------
SYMBOLS = ["m", "s", "kg", "A", "K", "mol", "cd", "N", "J", "Pa", "a", "b", "x", "Hz", "base", "V", "ohm", "W",
           "rad", "g", "L", "eV", "T", "C", "F", "lm", "e", "E", "j", "inf", "nan", "None", "True", "X", "l", "O", "I"]
CORRUPT = "abmsxKZ0123456789^-*/() " + DOT + "+.,_\n"


def gen_symbol(rng):
    r = rng.random()
    if r < 0.8:
        return rng.choice(SYMBOLS)
    return "".join(rng.choice("abcdefghijklmnopqrstuvwxyzABCDEFGHIJKLMNOPQRSTUVWXYZ") for _ in range(rng.randrange(1, 4)))


def gen_int(rng):
    r = rng.random()
    if r < 0.7:
        return str(rng.choice([-4, -3, -2, -1, 1, 2, 3, 4, 2, -2, 0]))
    if r < 0.78:
        return rng.choice(["10", "-10", "100", "1000", "-0", "00", "-1", "1", "0", "16", "64", "-100"])
    if r < 0.9:
        return rng.choice(["-", ""]) + "0" + str(rng.randrange(0, 10))
    return str(rng.randrange(-120, 120))


def gen_atom(rng, few_symbols=None):
    sym = rng.choice(few_symbols) if few_symbols else gen_symbol(rng)
    if rng.random() < 0.45:
        return sym + "^" + gen_int(rng)
    return sym


def gen_flat(rng, few, max_terms=3):
    n = rng.choice([1, 1, 2, 2, 3][:max_terms + 2])
    out = ""
    for i in range(n):
        if i:
            out += rng.choice(["*", "/", DOT, "/", "*"])
        k = rng.choice([1, 1, 1, 2, 3])
        for j in range(k):
            a = gen_atom(rng, few)
            # a bare symbol followed by a letter would lex as one symbol: put the power on it
            if j + 1 < k and "^" not in a and rng.random() < 0.9:
                a += "^" + gen_int(rng)
            out += a
    return out


def gen_sentence(rng):
    """a sentence of the property's grammar (as text); repeated symbols are likely"""
    few = None
    if rng.random() < 0.6:
        few = [gen_symbol(rng) for _ in range(rng.randrange(1, 4))]
    n = rng.choice([1, 2, 2, 3, 3, 4, 5])
    out = ""
    for i in range(n):
        if i:
            out += rng.choice(["*", "/", DOT, "/", "*"])
        k = rng.choice([1, 1, 1, 2, 2, 3])
        for j in range(k):
            if rng.random() < 0.22:
                f = "(" + gen_flat(rng, few) + ")"
            else:
                f = gen_atom(rng, few)
                if j + 1 < k and "^" not in f and rng.random() < 0.9:
                    f += "^" + gen_int(rng)
            out += f
    return out


def tame(s, bound=14):
    """The library's validity check is a backtracking regular expression  (TOKEN)+  : on a string that is NOT valid it tries
    every way of cutting each letter run and digit run into shorter tokens, i.e. about 2**(sum of (run length - 1)) paths
    (a 70-character corruption of a sentence with eleven 4-letter symbols took 369 s to be rejected).  That is a
    performance matter, not part of C12; inputs that may be invalid are therefore kept below 2**bound paths by
    shortening their symbols to one letter (the structure of the string is unchanged)."""
    runs = re.findall(r"[a-zA-Z]+|[0-9]+", s)
    if sum(len(r) - 1 for r in runs) <= bound:
        return s
    s = re.sub(r"[a-zA-Z]+", lambda m: m.group()[0], s)
    runs = re.findall(r"[a-zA-Z]+|[0-9]+", s)
    if sum(len(r) - 1 for r in runs) <= bound:
        return s
    return re.sub(r"[0-9]+", lambda m: m.group()[0], re.sub(r"[a-zA-Z]+", lambda m: m.group()[0], s))[:60]


def corrupt(rng, s):
    return tame(_corrupt(rng, s))


def _corrupt(rng, s):
    kind = rng.randrange(3)
    if kind == 0 or not s:
        i = rng.randrange(len(s) + 1)
        return s[:i] + rng.choice(CORRUPT) + s[i:]
    i = rng.randrange(len(s))
    if kind == 1:
        return s[:i] + s[i + 1:]
    return s[:i] + rng.choice(CORRUPT) + s[i + 1:]


EXPONENTS = [Fraction(k) for k in range(-4, 5) if k] + [Fraction(1, 2), Fraction(-1, 2), Fraction(1, 3), Fraction(-1, 3),
                                                      Fraction(3, 2), Fraction(-3, 2)]
# further exponents that sqrt / constant powers produce (used in the random streams): denominators up to the bound 10
MORE_EXPONENTS = [Fraction(1, 4), Fraction(-1, 4), Fraction(3, 4), Fraction(2, 3), Fraction(-2, 3), Fraction(2, 5), Fraction(5, 2),
                  Fraction(-5, 2), Fraction(1, 10), Fraction(-3, 10), Fraction(7, 10), Fraction(10, 3), Fraction(1, 6),
                  Fraction(-1, 8), Fraction(12), Fraction(-10), Fraction(10), Fraction(100),
                  Fraction(-100), Fraction(16), Fraction(9, 10), Fraction(-9, 10), Fraction(1000)]


def py_exponent(fr):
    """how the library holds the exponent: int, or the float of a fraction"""
    return int(fr) if fr.denominator == 1 else float(fr)


# ---------------------------------------------------------------------------------------------------------
# Coq encoding
# ---------------------------------------------------------------------------------------------------------
def cp(s):
    return "[" + ";".join(str(ord(c)) for c in s) + "]%N"


def qexact(v):
    fr = Fraction(v)
    return "({}#{})".format(fr.numerator, fr.denominator)


def coq_umap(pairs, intern=None):
    t = "[" + ";".join("({},{})".format(cp(k), qexact(v)) for k, v in pairs) + "]"
    return intern(t) if intern else t


def coq_obs(obs, intern=None):
    if obs is None or obs == "weird":
        return "None"
    return "(Some {})".format(coq_umap(obs, intern))


CASE_HEADER = ("From Coq Require Import List ZArith NArith QArith Bool.\n"
               "From QV Require Import Base.CaseLib Gen.UnitSyntaxGen Model.UnitSyntax Model.UnitPrint Model.UnitSyntaxCases.\n"
               "Import ListNotations.\nOpen Scope Q_scope.\n")
