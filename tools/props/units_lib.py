"""Shared harness of C08 and C18 (unit propagation): case generators, running the implementation,
encoding cases for Coq, and the independent dimensional-analysis oracle (fractions.Fraction)."""
import itertools
import json
import os
import warnings
from collections import OrderedDict
from fractions import Fraction

from vlib import core, coq
from vlib.coqfmt import coq_list, coq_bool, coq_option, Interner

# ---------------------------------------------------------------------------------------------
# vocabulary
# ---------------------------------------------------------------------------------------------
SYMS = ["a", "b", "c", "d", "kg", "m", "s", "A", "K", "mol", "N", "J", "W", "Hz", "Pa", "L", "X", "Y", "Z", "V", "C"]
SYM_ID = {n: i + 1 for i, n in enumerate(SYMS)}
UN_OPS = ["neg", "sqrt"]
BIN_OPS = ["add", "sub", "mul", "div"]
OTHER_UN = ["exp", "sin", "cos", "tan", "asin", "acos", "atan", "sec", "csc", "cot", "log10", "ln"]
STD_DEFS = {
    "N": [["kg", 1, 1], ["m", 1, 1], ["s", -2, 1]],
    "J": [["N", 1, 1], ["m", 1, 1]],
    "W": [["J", 1, 1], ["s", -1, 1]],
    "Hz": [["s", -1, 1]],
    "Pa": [["N", 1, 1], ["m", -2, 1]],
}
DEF_SETS = [["N"], ["N", "J"], ["N", "J", "W"], ["Hz"], ["Pa", "N"], ["J", "N"], ["W", "J", "N"]]


def _q():
    import qexpy as q
    return q


def _U():
    import qexpy.utils.units as U
    return U


class CaseInvalid(Exception):
    """the case cannot be presented to the implementation as intended (e.g. the unit string does not parse to the map)"""


# ---------------------------------------------------------------------------------------------
# unit maps <-> strings
# ---------------------------------------------------------------------------------------------
def fr(item):
    return Fraction(item[1], item[2])


def item(name, f):
    f = Fraction(f)
    return [name, f.numerator, f.denominator]


def ustr(items):
    """a unit string that the library parses to exactly this ordered map"""
    parts = []
    for name, n, d in items:
        f = Fraction(n, d)
        if f == 1:
            parts.append(name)
        elif f.denominator == 1:
            parts.append("{}^{}".format(name, f.numerator))
        else:
            parts.append("{}^({}/{})".format(name, f.numerator, f.denominator))
    return "*".join(parts)


def to_items(d, approx=False):
    out = []
    for k, v in d.items():
        f = Fraction(v)
        if approx:
            f = f.limit_denominator(64)
        out.append([k, f.numerator, f.denominator])
    return out


def small_dyadic(items, maxden=4096):
    for _, n, d in items:
        if d > maxden or (d & (d - 1)) != 0 or abs(n) > 10 ** 6:
            return False
    return True


def parse_printed(text):
    """independent reader of the exponent-style unit strings the library prints: x^2⋅y^(1/2)⋅z"""
    items = []
    if text == "":
        return items
    for part in text.replace("*", "⋅").split("⋅"):
        if "^" in part:
            name, p = part.split("^", 1)
            p = p.strip("()")
            f = Fraction(p)
        else:
            name, f = part, Fraction(1)
        if not name.isalpha():
            raise ValueError("unreadable unit string " + repr(text))
        items.append(item(name, f))
    return items


# ---------------------------------------------------------------------------------------------
# running the implementation
# ---------------------------------------------------------------------------------------------
def reset_state():
    """isolation between cases: does NOT go through clear_unit_definitions (that function is under test; a history's
    'clear' event calls it), the module global is rebound directly"""
    q, U = _q(), _U()
    U.UNIT_DEFINITIONS = {}
    q.reset_default_configuration()


def apply_history(history):
    q, U = _q(), _U()
    for ev in history:
        if ev[0] == "clear":
            q.clear_unit_definitions()
        else:
            q.define_unit(ev[1], ustr(ev[2]))
            got = to_items(U.UNIT_DEFINITIONS[ev[1]])
            if got != [list(x) for x in ev[2]]:
                raise CaseInvalid("definition {} parsed to {}".format(ev, got))


# ---- operand styles: HOW the same tree is presented to the library (the unit model does not depend on it) -------------
#  values : "same" (every leaf 4.0 +/- 0.5, equal central values in distinct objects) | "varied" | "special" (0, 1, -1, 2, 10,
#           100) | "tiny" (x 1e-12) | "huge" (1e9 + 1)
#  share  : leaves with the same written unit are ONE object (x*x, x+x, x/x on the same quantity)
#  names  : None | "same" (every leaf is called "x") | "distinct"
#  read   : every constructed quantity is read (.unit, str(), .value, .error) BEFORE it is used as an operand
#  entry  : "scalar" (q.Measurement) | "element" (leaf = element [0] of a q.MeasurementArray)
#  cst    : "plain" | "bool" | "numpy" | "fraction"  -- number type of constant operands and constant powers
_STYLE = {}
_SHARED = {}
_COUNTER = [0]
_LEAVES = []
VALUE_SETS = {"varied": [4.0, 2.5, 9.0, 0.75, 16.0, 1.25], "special": [0.0, 1.0, -1.0, 2.0, 10.0, 100.0],
              "tiny": [4e-12, 2.5e-12, 9e-12], "huge": [1e9 + 1, 1e9 + 2, 3e9]}


class styled:
    def __init__(self, style):
        self.style = style or {}

    def __enter__(self):
        global _STYLE
        self.old = _STYLE
        _STYLE = self.style
        begin_build()

    def __exit__(self, *a):
        global _STYLE
        _STYLE = self.old


def begin_build():
    _SHARED.clear()
    del _LEAVES[:]
    _COUNTER[0] = 0


def rand_style(rng, p_plain=0.5):
    if rng.random() < p_plain:
        return None
    st = {}
    if rng.random() < 0.5:
        st["values"] = rng.choice(["varied", "special", "tiny", "huge", "same"])
    if rng.random() < 0.4:
        st["share"] = True
    if rng.random() < 0.3:
        st["names"] = rng.choice(["same", "distinct"])
    if rng.random() < 0.4:
        st["read"] = True
    if rng.random() < 0.25:
        st["entry"] = "element"
    if rng.random() < 0.35:
        st["cst"] = rng.choice(["bool", "numpy", "fraction"])
    return st or None


def number(n, d, power=False):
    f = Fraction(n, d)
    kind = _STYLE.get("cst", "plain")
    i = _COUNTER[0]
    _COUNTER[0] += 1
    if kind == "bool" and f in (0, 1):
        return bool(f)
    if kind == "fraction":
        return f
    if kind == "numpy":
        import numpy as np
        if f.denominator == 1:
            return [np.int64, np.int32, np.float64, np.int16][i % 4](int(f))
        # every numpy float width, also as a constant power (x ** np.float32(0.5) used to fail when printed; /repo b92b85e)
        return [np.float64, np.float32, np.float16][i % 3](float(f))
    return int(f) if f.denominator == 1 else float(f)


def read_before_use(x):
    """what a user may do with an intermediate result before computing on with it"""
    if not _STYLE.get("read") or not hasattr(x, "_unit"):
        return
    _ = x.unit
    try:
        _ = str(x), x.value, x.error
    except Exception:  # noqa -- values may be outside an operator's domain (sqrt of a negative number ...): not our concern
        pass


def make_leaf(items):
    q = _q()
    key = json.dumps(items)
    if _STYLE.get("share") and key in _SHARED:
        return _SHARED[key]
    i = _COUNTER[0]
    _COUNTER[0] += 1
    vals = VALUE_SETS.get(_STYLE.get("values"), [4.0])
    v = vals[i % len(vals)]
    err = abs(v) / 8 if v else 0.5
    kw = {}
    if _STYLE.get("names") == "same":
        kw["name"] = "x"
    elif _STYLE.get("names") == "distinct":
        kw["name"] = "x{}".format(i)
    if _STYLE.get("entry") == "element":
        arr = q.MeasurementArray([v, v + 1.0], err, unit=ustr(items), **kw)
        m = arr[0]
    else:
        m = q.Measurement(v, err, unit=ustr(items), **kw)
    if to_items(m._unit) != [list(x) for x in items]:
        raise CaseInvalid("leaf {} parsed to {}".format(items, to_items(m._unit)))
    _SHARED[key] = m
    _LEAVES.append(m)
    return m


def build(t, nodes):
    """construct the quantity for a tree through the public API; appends every constructed quantity to nodes"""
    q = _q()
    k = t[0]
    if k == "leaf":
        m = make_leaf(t[1])
        nodes.append(m)
        read_before_use(m)
        return m
    if k == "cst":
        return number(t[1], t[2])
    if k == "un":
        a = build(t[2], nodes)
        if not hasattr(a, "_unit"):
            raise CaseInvalid("unary operator on a plain number")
        op = t[1]
        r = -a if op == "neg" else getattr(q, {"ln": "log"}.get(op, op))(a)
        nodes.append(r)
        read_before_use(r)
        return r
    a = build(t[2], nodes)
    b = number(t[3][1], t[3][2], power=True) if (t[1] == "pow" and t[3][0] == "cst") else build(t[3], nodes)
    if not hasattr(a, "_unit") and not hasattr(b, "_unit"):
        raise CaseInvalid("operator on two plain numbers")
    op = t[1]
    if op == "add":
        r = a + b
    elif op == "sub":
        r = a - b
    elif op == "mul":
        r = a * b
    elif op == "div":
        r = a / b
    elif op == "pow":
        r = a ** b
    elif op == "log":
        r = q.log(a, b)
    else:
        raise CaseInvalid("operator " + op)
    nodes.append(r)
    read_before_use(r)
    return r


MISMATCH_TEXT = "mismatching units"


def run_tree(history, tree, frac=False, recalc_history=None, style=None):
    """returns dict(unit=items, warned=bool, text=str, exc=None|'rec', exact=bool, nodes=[items...])"""
    q = _q()
    reset_state()
    try:
        apply_history(history)
        if frac:
            q.set_unit_style(q.UnitStyle.FRACTION)
        nodes = []
        with warnings.catch_warnings(record=True) as w:
            warnings.simplefilter("always")
            try:
                with styled(style):
                    r = build(tree, nodes)
                if recalc_history is not None:
                    if not hasattr(r, "recalculate"):
                        raise CaseInvalid("recalculate on a measurement")
                    apply_history(recalc_history)
                    del w[:]
                    r.recalculate()
                text = r.unit if hasattr(r, "_unit") else ""
            except RecursionError:
                return {"exc": "rec", "exact": True}
            except CaseInvalid:
                raise
            except Exception as e:  # noqa  -- the library itself failed on this input
                return {"exc": "crash", "what": "{}: {}".format(type(e).__name__, str(e)[:120]), "exact": True}
        if not hasattr(r, "_unit"):
            raise CaseInvalid("the tree is a plain number")
        warned = any(MISMATCH_TEXT in str(x.message) for x in w)
        node_items = [to_items(n._unit) for n in nodes]
        defs_items = [x for ev in list(history) + list(recalc_history or []) if ev[0] == "define" for x in ev[2]]
        exact = all(small_dyadic(it) for it in node_items)
        return {"exc": None, "unit": to_items(r._unit), "warned": warned, "text": text, "exact": exact,
                "nodes": node_items, "defs_items": defs_items}
    finally:
        reset_state()


def observe_use(tree, events_so_far, frac=False, style=None):
    """build one tree under whatever definitions are in force NOW (no reset) and observe it"""
    nodes = []
    with warnings.catch_warnings(record=True) as w:
        warnings.simplefilter("always")
        try:
            with styled(style):
                r = build(tree, nodes)
            text = r.unit if hasattr(r, "_unit") else ""
        except RecursionError:
            return {"exc": "rec", "exact": True}
        except CaseInvalid:
            raise
        except Exception as e:  # noqa  -- the library itself failed on this input
            return {"exc": "crash", "what": "{}: {}".format(type(e).__name__, str(e)[:120]), "exact": True}
    if not hasattr(r, "_unit"):
        raise CaseInvalid("the tree is a plain number")
    warned = any(MISMATCH_TEXT in str(x.message) for x in w)
    node_items = [to_items(n._unit) for n in nodes]
    defs_items = [x for ev in events_so_far if ev[0] == "define" for x in ev[2]]
    return {"exc": None, "unit": to_items(r._unit), "warned": warned, "text": text,
            "exact": all(small_dyadic(it) for it in node_items), "nodes": node_items, "defs_items": defs_items}


def run_session(steps, style=None):
    """steps: ["define", name, items] | ["clear"] | ["use", tree], executed in order in ONE interpreter state (no reset
    in between: what an earlier use left behind in the library is still there at a later one).
    The session starts from a FRESH LIBRARY STATE (core.fresh_impl(): the modules are imported again), without any
    clear_unit_definitions() call and without touching UNIT_DEFINITIONS from outside: the first define of the session is
    the first define of the process, the first clear its first clear.
    Returns the list of observations of the use steps, in order."""
    core.fresh_impl()
    out, events = [], []
    run_session.state_changes = []
    try:
        for st in steps:
            if st[0] == "use":
                out.append(observe_use(st[1], events, style=style))
            elif st[0] == "bad_define":
                rejected_define(st[1], st[2], run_session.state_changes)
            else:
                apply_history([st])
                events.append(st)
        return out
    finally:
        reset_state()


run_session.state_changes = []
BAD_UNIT_TEXTS = ["kg*/m", "(kg", "m^", "2m", "kg**m", "m/", "", "m^x", "kg m", "m)"]
BAD_NAMES = ["k g", "N-1", ""]


def rejected_define(name, text, changes):
    """a define_unit call that the library rejects must leave the definitions exactly as they were"""
    q, U = _q(), _U()
    before = [[n, to_items(d)] for n, d in U.UNIT_DEFINITIONS.items()]
    try:
        q.define_unit(name, text)
    except Exception:  # noqa
        after = [[n, to_items(d)] for n, d in U.UNIT_DEFINITIONS.items()]
        if after != before:
            changes.append("define_unit({!r}, {!r}) was rejected but changed the definitions from {} to {}".format(
                name, text, before, after))
        return
    raise CaseInvalid("define_unit({!r}, {!r}) was accepted".format(name, text))


def run_setunit(history, tree, idx, new_items, frac=False, style=None):
    """build a tree whose operands are leaves, READ its unit, change the unit of leaf [idx] through the public setter
    (on the same object), recalculate() the result and observe it again"""
    q = _q()
    reset_state()
    try:
        apply_history(history)
        nodes = []
        with warnings.catch_warnings(record=True) as w:
            warnings.simplefilter("always")
            try:
                with styled(dict(style or {}, share=False)):
                    r = build(tree, nodes)
                    leaves = list(_LEAVES)
                if not hasattr(r, "recalculate") or idx >= len(leaves):
                    raise CaseInvalid("nothing to recalculate")
                _ = r.unit
                try:
                    _ = str(r)
                except Exception:  # noqa -- the VALUE may be outside an operator's domain (0 ** -1 ...): not our concern
                    pass
                if to_items(_U().parse_unit_string(ustr(new_items)) if new_items else {}) != [list(x) for x in new_items]:
                    raise CaseInvalid("the unit text does not parse to the intended map")     # the parser is C12
                leaves[idx].unit = ustr(new_items)       # what the setter does with it is under test
                del w[:]
                r.recalculate()
                text = r.unit
            except RecursionError:
                return {"exc": "rec", "exact": True}
            except CaseInvalid:
                raise
            except Exception as e:  # noqa
                return {"exc": "crash", "what": "{}: {}".format(type(e).__name__, str(e)[:120]), "exact": True}
        warned = any(MISMATCH_TEXT in str(x.message) for x in w)
        node_items = [to_items(n._unit) for n in nodes]
        defs_items = [x for ev in history if ev[0] == "define" for x in ev[2]]
        return {"exc": None, "unit": to_items(r._unit), "warned": warned, "text": text,
                "exact": all(small_dyadic(it) for it in node_items), "nodes": node_items, "defs_items": defs_items}
    finally:
        reset_state()


def replace_leaf(tree, idx, new_items):
    """the tree with its idx-th leaf (in construction order) replaced"""
    count = [0]

    def go(t):
        if t[0] == "leaf":
            i = count[0]
            count[0] += 1
            return leaf(new_items) if i == idx else t
        if t[0] == "cst":
            return t
        return t[:2] + [go(x) for x in t[2:]]
    return go(tree)


def count_leaves(t):
    if t[0] == "leaf":
        return 1
    if t[0] == "cst":
        return 0
    return sum(count_leaves(x) for x in t[2:])


def oracle_setunit(history, tree, idx, new_items, style=None):
    defs = defs_of(history)
    newtree = replace_leaf(tree, idx, new_items)
    try:
        exp = o_dim(newtree, defs)
        obs = run_setunit(history, tree, idx, new_items, style=style)
    except (OutOfDomain, Cyclic, CaseInvalid):
        return None
    why = judge(obs, exp, defs, newtree)
    return "after the unit of operand #{} was set to {!r} and the result recalculated: {}".format(
        idx + 1, ustr(new_items), why) if why else None


def session_events_before(steps):
    """for every use step: the define/clear events that precede it"""
    events, out = [], []
    for st in steps:
        if st[0] == "use":
            out.append(list(events))
        elif st[0] in ("define", "clear"):
            events.append(st)
    return out


def oracle_session(steps, style=None, only_undefined=False):
    """every use of a session must agree with dimensional analysis under the definitions in force at that moment
    (latest definition of each name since the latest clear), whatever was defined, used or redefined before"""
    try:
        obs = run_session(steps, style)
    except CaseInvalid:
        return None
    if run_session.state_changes:
        return run_session.state_changes[0]
    uses = [st for st in steps if st[0] == "use"]
    for i, (st, ob, evs) in enumerate(zip(uses, obs, session_events_before(steps))):
        defs = defs_of(evs)
        if only_undefined and defs:
            continue      # C08 speaks about results computed while no definition is active
        try:
            exp = o_dim(st[1], defs)
        except (OutOfDomain, Cyclic):
            continue
        why = judge(ob, exp, defs, st[1])
        if why:
            return "use #{} (after {} define/clear calls): {}".format(i + 1, len(evs), why)
    return None


def shrink_session(steps, style=None, only_undefined=False):
    """delta-debug the steps, then shrink the trees of the remaining uses"""
    def fails(s):
        return oracle_session(s, style, only_undefined) is not None
    steps = core.shrink_list(steps, fails)
    for i, st in enumerate(steps):
        if st[0] == "use":
            t = shrink_tree(st[1], lambda t, i=i: fails(steps[:i] + [["use", t]] + steps[i + 1:]))
            steps = steps[:i] + [["use", t]] + steps[i + 1:]
    return core.shrink_list(steps, fails)


def printable(obs):
    """exponents are printed through Fraction(x).limit_denominator(10): exact when the stored exponents are integers or
    halves and the definitions use integers or halves of magnitude <= 3 (then a packed power has a denominator <= 6)"""
    return all(d <= 2 and abs(n) <= 12 for _, n, d in obs["unit"]) and \
        all(d <= 2 and abs(Fraction(n, d)) <= 3 for _, n, d in obs["defs_items"])


def shown_items(obs, frac):
    """the printed unit read back, or None when exponents are not printed exactly (limit_denominator(10))"""
    if obs.get("exc"):
        return None
    if not printable(obs):
        return None
    U = _U()
    text = obs["text"]
    if text == "":
        return []
    if frac:
        return to_items(U.parse_unit_string(text), approx=True)
    return parse_printed(text)


def run_operate(history, op, args):
    """direct call of qexpy.utils.units.operate_with_units"""
    U = _U()
    reset_state()
    try:
        apply_history(history)
        dicts = [OrderedDict((n, number(a, b)) for n, a, b in items) for items in args]
        with warnings.catch_warnings(record=True) as w:
            warnings.simplefilter("always")
            try:
                r = U.operate_with_units(op, *dicts)
            except RecursionError:
                return {"exc": "rec", "exact": True}
            except TypeError:
                return {"exc": "type", "exact": True}
        warned = any(MISMATCH_TEXT in str(x.message) for x in w)
        it = to_items(r)
        return {"exc": None, "unit": it, "warned": warned, "exact": small_dyadic(it)}
    finally:
        reset_state()


def run_try_pack(unit, pre):
    U = _U()
    f = getattr(U, "__try_pack")
    r = f(OrderedDict((n, number(a, b)) for n, a, b in unit), OrderedDict((n, number(a, b)) for n, a, b in pre))
    return Fraction(r)


def run_defs(history):
    U = _U()
    reset_state()
    try:
        apply_history(history)
        return [[name, to_items(d)] for name, d in U.UNIT_DEFINITIONS.items()]
    finally:
        reset_state()


# ---------------------------------------------------------------------------------------------
# Coq encoding
# ---------------------------------------------------------------------------------------------
HEADER = ("From Coq Require Import List QArith Bool PArith.\nImport ListNotations.\n"
          "From QV Require Import Base.CaseLib Model.UnitsBase Gen.UnitsGen Model.Units Model.UnitsCases.\n"
          "Open Scope Q_scope.\n")


class Enc:
    def __init__(self):
        self.I = Interner()

    def q(self, n, d):
        return "({} # {})".format(n, d)

    def umap(self, items):
        if not items:
            return "(@nil (sym * Q))"
        return self.I("[" + "; ".join("({}%positive, {})".format(SYM_ID[n], self.q(a, b)) for n, a, b in items) + "]")

    def op(self, name):
        return "OP_" + name

    def tree(self, t):
        k = t[0]
        if k == "leaf":
            return self.I("(Leaf {})".format(self.umap(t[1])))
        if k == "cst":
            return "(Cst {})".format(self.q(t[1], t[2]))
        if k == "un":
            return self.I("(Un {} {})".format(self.op(t[1]), self.tree(t[2])))
        return self.I("(Bin {} {} {})".format(self.op(t[1]), self.tree(t[2]), self.tree(t[3])))

    def event(self, ev):
        if ev[0] == "clear":
            return "Clear"
        return self.I("(Define {}%positive {})".format(SYM_ID[ev[1]], self.umap(ev[2])))

    def history(self, h):
        if not h:
            return "(@nil event)"
        return self.I("[" + "; ".join(self.event(e) for e in h) + "]")

    def obs(self, o):
        if o.get("exc"):
            return "None"
        return "(Some ({}, {}))".format(self.umap(o["unit"]), coq_bool(o["warned"]))

    def session(self, steps, obs, showns):
        terms, i = [], 0
        for st in steps:
            if st[0] == "use":
                terms.append(self.I("(SUse {} {} {})".format(self.tree(st[1]), self.obs(obs[i]), self.opt_umap(showns[i]))))
                i += 1
            elif st[0] in ("define", "clear"):
                terms.append("(SEv {})".format(self.event(st)))
        return "[" + "; ".join(terms) + "]"

    def opt_umap(self, items):
        return "None" if items is None else "(Some {})".format(self.umap(items))


def eval_shards(prop_id, groups, keep=False, per=400):
    """groups: list of (check_fn_name, [(mk, payload)...]) with mk(enc) -> Coq term of one case; returns the list of
    (check name, payload) that disagree and the list of shards that did not evaluate"""
    shards, index = [], []
    for fn, entries in groups:
        for k in range(0, len(entries), per):
            chunk = entries[k:k + per]
            enc = Enc()
            terms = [mk(enc) for mk, _ in chunk]
            text = HEADER + enc.I.text() + "Definition cases := {}.\nEval vm_compute in (bad_indices {} cases).\n".format(
                coq_list(terms), fn)
            shards.append(text)
            index.append((fn, chunk))
    bads, logs = coq.run_case_files(prop_id, shards, keep=keep)
    disagreements, failures = [], []
    for (fn, chunk), bad, log in zip(index, bads, logs):
        if bad is None:
            failures.append("case file did not evaluate ({}): {}".format(fn, log.strip().split("\n")[-1][:200]))
            continue
        for i in bad[0]:
            disagreements.append((fn, chunk[i][1]))
    return disagreements, failures


# ---------------------------------------------------------------------------------------------
# case generators (every random choice from the rng passed in)
# ---------------------------------------------------------------------------------------------
def leaf(items):
    return ["leaf", [list(x) for x in items]]


def cst(f):
    f = Fraction(f)
    return ["cst", f.numerator, f.denominator]


def orderings_pool(symbols=("a", "b", "c"), exps=(1, -1, 2)):
    """leaf units: every ordering of <= 3 symbols with small exponents (a compact exhaustive family)"""
    pool = [[]]
    for s in symbols[:2]:
        for e in exps:
            pool.append([item(s, e)])
    for (s1, s2) in itertools.permutations(symbols[:2], 2):
        for e1, e2 in [(1, 1), (1, -1), (2, 1)]:
            pool.append([item(s1, e1), item(s2, e2)])
    for perm in itertools.permutations(symbols, 3):
        pool.append([item(perm[0], 1), item(perm[1], 1), item(perm[2], -2)])
    out, seen = [], set()
    for p in pool:
        key = json.dumps(p)
        if key not in seen:
            seen.add(key)
            out.append(p)
    return out


POWERS = [Fraction(2), Fraction(-1), Fraction(1, 2), Fraction(0), Fraction(3), Fraction(-3, 2)]


def depth1_trees(leaves, powers=POWERS, with_const=True):
    ops = []
    operands = [leaf(l) for l in leaves]
    for a in operands:
        for o in UN_OPS:
            ops.append(["un", o, a])
        for p in powers:
            ops.append(["bin", "pow", a, cst(p)])
    both = operands + ([cst(2)] if with_const else [])
    for o in BIN_OPS:
        for a in both:
            for b in both:
                if a[0] == "cst" and b[0] == "cst":
                    continue
                ops.append(["bin", o, a, b])
    return ops


def depth2_trees(inner, leaves, powers=(Fraction(2), Fraction(1, 2), Fraction(-1))):
    out = []
    operands = [leaf(l) for l in leaves] + [cst(2)]
    for t in inner:
        for o in UN_OPS:
            out.append(["un", o, t])
        for p in powers:
            out.append(["bin", "pow", t, cst(p)])
        for o in BIN_OPS:
            for l in operands:
                out.append(["bin", o, t, l])
                out.append(["bin", o, l, t])
    return out


def rand_exp(rng, allow_zero=False):
    r = rng.random()
    if r < 0.6:
        return Fraction(rng.choice([1, 1, 1, -1, -1, 2, -2, 3]))
    if r < 0.8:
        return Fraction(rng.choice([1, -1, 3, -3]), 2)
    if r < 0.9:
        return Fraction(rng.choice([4, -4, 5, 6]))
    if allow_zero and r < 0.95:
        return Fraction(0)
    return Fraction(rng.choice([1, -1, 3]), 4)


def rand_umap(rng, symbols, maxlen=4, allow_zero=False, allow_empty=False):
    n = rng.randrange(0 if allow_empty else 1, maxlen + 1)
    names = rng.sample(list(symbols), min(n, len(symbols)))
    return [item(s, rand_exp(rng, allow_zero)) for s in names]


def permuted(rng, items):
    items = [list(x) for x in items]
    rng.shuffle(items)
    return items


def rand_tree(rng, depth, leafgen, p_const=0.12, p_other=0.03, related=None):
    """random tree; [related] is a list of leaf units that are reused (permuted) so that sums often match"""
    if depth <= 0 or rng.random() < 0.18:
        if related and rng.random() < 0.6:
            return leaf(permuted(rng, rng.choice(related)))
        return leaf(leafgen(rng))
    r = rng.random()
    if r < p_other:
        k = rng.random()
        if k < 0.5:
            return ["un", rng.choice(OTHER_UN), rand_tree(rng, depth - 1, leafgen, p_const, p_other, related)]
        return ["bin", "pow", rand_tree(rng, depth - 1, leafgen, p_const, p_other, related),
                rand_tree(rng, depth - 1, leafgen, p_const, p_other, related)]
    if r < 0.2:
        return ["un", rng.choice(UN_OPS), rand_tree(rng, depth - 1, leafgen, p_const, p_other, related)]
    if r < 0.35:
        p = rng.choice([Fraction(2), Fraction(2), Fraction(-1), Fraction(1, 2), Fraction(3), Fraction(-2), Fraction(1, 4),
                        Fraction(0), Fraction(3, 2), Fraction(1)])
        return ["bin", "pow", rand_tree(rng, depth - 1, leafgen, p_const, p_other, related), cst(p)]
    o = rng.choice(BIN_OPS)
    a = rand_tree(rng, depth - 1, leafgen, p_const, p_other, related)
    if o in ("add", "sub") and rng.random() < 0.6:
        b = same_dimension_variant(rng, a)
    else:
        b = rand_tree(rng, depth - 1, leafgen, p_const, p_other, related)
    if rng.random() < p_const:
        c = cst(rng.choice([2, 3, Fraction(1, 2), -1]))
        if rng.random() < 0.5:
            a = c
        else:
            b = c
    return ["bin", o, a, b]


def same_dimension_variant(rng, t):
    """a tree with (very likely) the same dimension as t but built / written differently"""
    k = t[0]
    if k == "leaf":
        return leaf(permuted(rng, t[1]))
    if k == "cst":
        return t
    if k == "un":
        return ["un", t[1], same_dimension_variant(rng, t[2])]
    o = t[1]
    if o in ("mul", "add") and rng.random() < 0.7:
        return ["bin", o, same_dimension_variant(rng, t[3]), same_dimension_variant(rng, t[2])]
    return ["bin", o, same_dimension_variant(rng, t[2]), same_dimension_variant(rng, t[3])]


def tree_size(t):
    if t[0] in ("leaf", "cst"):
        return 1
    return 1 + sum(tree_size(x) for x in t[2:])


def tree_ops(t, acc=None):
    acc = acc if acc is not None else []
    if t[0] in ("un", "bin"):
        acc.append(t[1])
        for x in t[2:]:
            tree_ops(x, acc)
    return acc


# ---- definitions ------------------------------------------------------------------------------
def std_history(names):
    return [["define", n, [list(x) for x in STD_DEFS[n]]] for n in names]


def rand_history(rng, malformed=False):
    """define/clear sequences: standard sets, redefinitions, definitions given in terms of other names, clears"""
    h = []
    r = rng.random()
    if r < 0.55:
        h += std_history(rng.choice(DEF_SETS))
    elif r < 0.75:
        h += std_history(rng.choice(DEF_SETS))
        h.append(["clear"])
        h += std_history(rng.choice(DEF_SETS))
    else:
        # random definitions over base symbols, possibly in terms of earlier names
        names = rng.sample(["X", "Y", "Z", "L", "V"], rng.randrange(1, 4))
        avail = ["kg", "m", "s", "A"]
        for n in names:
            body = rand_umap(rng, avail, maxlen=3)
            body = [x for x in body if Fraction(x[1], x[2]).denominator <= 2 and abs(Fraction(x[1], x[2])) <= 3] or [item("m", 1)]
            h.append(["define", n, body])
            avail = avail + [n]
    if rng.random() < 0.2 and h:
        # redefine one of the names (keeps its place in the dict)
        ev = rng.choice([e for e in h if e[0] == "define"])
        h.append(["define", ev[1], rand_umap(rng, ["kg", "m", "s"], maxlen=2)])
    if malformed and rng.random() < 0.5:
        # a cyclic definition: the library does not terminate on it (RecursionError)
        k = rng.random()
        if k < 0.5:
            h.append(["define", "X", [item("X", 1), item("m", 1)]])
        else:
            h.append(["define", "X", [item("Y", 1)]])
            h.append(["define", "Y", [item("X", 2), item("s", -1)]])
    return h


def defs_of(history):
    d = OrderedDict()
    for ev in history:
        if ev[0] == "clear":
            d = OrderedDict()
        else:
            d[ev[1]] = [list(x) for x in ev[2]]
    return d


def named_leafgen(history):
    """leaf units in named, expanded and mixed form for the definitions in force"""
    defs = defs_of(history)
    names = list(defs)
    base = ["kg", "m", "s"]

    def expand_once(items):
        out = []
        for n, a, b in items:
            if n in defs and all(x[0] != n for x in defs[n]):
                for m, c, d in defs[n]:
                    out.append(item(m, Fraction(a, b) * Fraction(c, d)))
            else:
                out.append([n, a, b])
        merged = OrderedDict()
        for n, a, b in out:
            merged[n] = merged.get(n, 0) + Fraction(a, b)
        return [item(n, f) for n, f in merged.items()]

    def gen(rng):
        r = rng.random()
        if not names or r < 0.15:
            return rand_umap(rng, base, maxlen=3)
        n = rng.choice(names)
        p = Fraction(rng.choice([1, 1, 1, 2, -1, -2, 3, -3]))
        if rng.random() < 0.15:
            p = Fraction(rng.choice([1, -1, 3]), 2)
        named = [item(n, p)]
        if r < 0.4:
            return named                                    # named, raised to a power
        if r < 0.6:
            u = named
            for _ in range(rng.randrange(1, 4)):
                u = expand_once(u)
            return permuted(rng, u) if rng.random() < 0.5 else u   # expanded (partly or fully)
        if r < 0.8:
            other = rng.choice(base + names)
            if other == n:
                return named
            return permuted(rng, named + [item(other, rand_exp(rng))])    # mixed
        # near misses: proportional but unequal exponents, partial matches
        u = expand_once(named)
        k = rng.random()
        if k < 0.4 and len(u) > 1:
            u = u[:-1]
        elif k < 0.8 and u:
            i = rng.randrange(len(u))
            u[i] = item(u[i][0], Fraction(u[i][1], u[i][2]) + rng.choice([1, -1]))
            u = [x for x in u if x[1] != 0] or [item("m", 1)]
        return u
    return gen


# ---- sessions: define / clear / use interleaved ---------------------------------------------------
CHAINS = [["N", "J", "W"], ["N", "J"], ["N", "Pa"], ["Hz"], ["N", "J", "W", "Pa"]]
VARIANTS = {
    "N": [[["kg", 1, 1], ["m", 1, 1], ["s", -2, 1]], [["kg", 1, 1], ["m", 1, 1], ["s", -1, 1]], [["kg", 1, 1], ["m", 1, 1]],
          [["kg", 1, 1], ["m", 2, 1], ["s", -2, 1]]],
    "J": [[["N", 1, 1], ["m", 1, 1]], [["N", 1, 1], ["m", 2, 1]], [["kg", 1, 1], ["m", 2, 1], ["s", -2, 1]]],
    "W": [[["J", 1, 1], ["s", -1, 1]], [["N", 1, 1], ["m", 1, 1], ["s", -1, 1]], [["J", 1, 1], ["s", -2, 1]]],
    "Pa": [[["N", 1, 1], ["m", -2, 1]], [["N", 1, 1], ["m", -1, 1]]],
    "Hz": [[["s", -1, 1]], [["s", -2, 1]]],
}


def use_trees(rng, events, focus=None, n=None):
    """a few use steps under the definitions in force after [events]; [focus] = names whose leaves are preferred"""
    lg = named_leafgen(events)
    defs = defs_of(events)
    out = []
    for _ in range(n or rng.randrange(1, 4)):
        if focus and rng.random() < 0.75:
            name = rng.choice(focus)
            p = rng.choice([1, 1, 1, 2, -1])
            a = leaf([item(name, p)])
            k = rng.random()
            if k < 0.35:
                b = leaf(lg(rng))
                t = ["bin", rng.choice(["mul", "div"]), a, b] if rng.random() < 0.5 else ["bin", rng.choice(["mul", "div"]), b, a]
            elif k < 0.7:
                # the same dimension written in fully expanded form (under the CURRENT definitions): must add without mismatch
                try:
                    ex = o_expand([item(name, p)], defs)
                    b = leaf(permuted(rng, [item(s_, v) for s_, v in sorted(ex.items())]) or [item("m", 1)])
                except Cyclic:
                    b = leaf(lg(rng))
                t = ["bin", rng.choice(["add", "sub"]), a, b] if rng.random() < 0.5 else ["bin", rng.choice(["add", "sub"]), b, a]
            elif k < 0.85:
                t = ["un", rng.choice(["neg", "sqrt"]), a]
            else:
                t = ["bin", "mul", ["bin", "pow", a, cst(rng.choice([2, -1, Fraction(1, 2)]))], leaf(lg(rng))]
        else:
            related = [lg(rng) for _ in range(2)]
            t = rand_tree(rng, rng.choice([1, 1, 2, 3]), lg, p_const=0.1, p_other=0.0, related=related)
        out.append(["use", t])
    return out


def stale_probes(rng, events, n=None):
    """uses whose unit is GIVEN (or computed) in the expanded form of a definition made at any earlier point of the
    session, also one that has since been cleared or replaced: printing, powers and products of such units must follow
    the definitions in force now, not the ones that used to be"""
    bodies = [(ev[1], ev[2]) for ev in events if ev[0] == "define"]
    out = []
    if not bodies:
        return out
    for _ in range(n or rng.randrange(1, 4)):
        name, body = rng.choice(bodies)
        body = [list(x) for x in body]
        p = Fraction(rng.choice([1, 1, 1, 2, -1, 3]))
        scaled = [item(n_, Fraction(a, b) * p) for n_, a, b in body]
        k = rng.random()
        if k < 0.4:
            t = leaf(permuted(rng, scaled) if rng.random() < 0.4 else scaled)            # printed as given
        elif k < 0.6:
            t = ["bin", "pow", leaf(body), cst(rng.choice([2, -1, 3, Fraction(1, 2)]))]    # constant power: not packed in the dict
        elif k < 0.8 and len(body) > 1:
            i = rng.randrange(1, len(body))
            t = ["bin", "mul", leaf(body[:i]), leaf(body[i:])]                          # computed after the change
        elif k < 0.9:
            t = ["un", rng.choice(["neg", "sqrt"]), leaf(scaled)]
        else:
            t = ["bin", "add", leaf(scaled), leaf(permuted(rng, scaled))]
        out.append(["use", t])
    return out


def with_rejected_defines(rng, steps):
    """the same session with define_unit calls that the library rejects (malformed unit text for a name that is or is
    not defined, malformed name), some offered twice in a row: they must change nothing"""
    out = []
    for st in steps:
        out.append(st)
        if rng.random() < 0.25:
            names = [x[1] for x in out if x[0] == "define"] or ["N"]
            bad = ["bad_define", rng.choice(names), rng.choice(BAD_UNIT_TEXTS)] if rng.random() < 0.75 else \
                ["bad_define", rng.choice(BAD_NAMES), "kg*m"]
            out.append(bad)
            if rng.random() < 0.4:
                out.append(list(bad))
    return out


def gen_session(rng):
    steps = gen_session_plain(rng)
    return with_rejected_defines(rng, steps) if rng.random() < 0.3 else steps


def gen_session_plain(rng):
    """define / clear / use steps; a good share redefines (or defines for the first time) a name on which an already
    USED name is built, without a clear in between; another share clears (the FIRST clear of the process) after
    definitions were made, optionally defines the names differently, and then prints / computes units in the expanded
    form of the earlier definitions"""
    steps, events = [], []

    def ev(e):
        steps.append(e)
        events.append(e)

    def uses(focus=None, n=None):
        steps.extend(use_trees(rng, events, focus, n))

    def stale(n=None):
        steps.extend(stale_probes(rng, events, n))

    r = rng.random()
    chain = rng.choice(CHAINS)
    if r < 0.22:
        # definitions made before the first clear of the process, clear, (other bodies), units in the old expanded forms
        for n in chain:
            ev(["define", n, [list(x) for x in rng.choice(VARIANTS[n])]])
        if rng.random() < 0.5:
            uses(chain, 1)
        if rng.random() < 0.3:
            stale(1)
        ev(["clear"])
        if rng.random() < 0.6:
            stale()
        k = rng.random()
        if k < 0.7:
            for n in (chain if rng.random() < 0.5 else chain[:1]):
                ev(["define", n, [list(x) for x in rng.choice(VARIANTS[n])]])
            stale()
            if rng.random() < 0.5:
                uses(chain, 1)
        if rng.random() < 0.3:
            ev(["clear"])
            stale(1)
        return steps
    r = (r - 0.22) / 0.78
    if r < 0.45:
        # chain defined bottom-up, dependents used, then a lower name redefined, dependents used again
        for n in chain:
            ev(["define", n, [list(x) for x in rng.choice(VARIANTS[n])]])
            if rng.random() < 0.3:
                uses([n], 1)
        deps = chain[1:] or chain
        uses(deps)
        for _ in range(rng.randrange(1, 3)):
            k = rng.randrange(0, max(1, len(chain) - 1))
            ev(["define", chain[k], [list(x) for x in rng.choice(VARIANTS[chain[k]])]])
            uses(chain[k + 1:] or chain)
    elif r < 0.65:
        # dependents defined and used BEFORE what they are built on is defined
        for n in reversed(chain):
            ev(["define", n, [list(x) for x in VARIANTS[n][0]]])
            uses([n], 1)
        uses(chain)
    elif r < 0.8:
        # clear in the middle, then the chain again with other bodies
        for n in chain:
            ev(["define", n, [list(x) for x in rng.choice(VARIANTS[n])]])
        uses(chain)
        ev(["clear"])
        uses(chain, 1)
        stale(1)
        for n in chain:
            ev(["define", n, [list(x) for x in rng.choice(VARIANTS[n])]])
            uses([n], 1)
        stale(1)
    else:
        # random interleaving over an acyclic vocabulary (a name only mentions names earlier in ORDER)
        order = ["X", "Y", "Z", "L"]
        for _ in range(rng.randrange(4, 11)):
            k = rng.random()
            defined = list(defs_of(events))
            if k < 0.45 or not defined:
                i = rng.randrange(len(order))
                avail = ["kg", "m", "s"] + order[:i]
                body = [x for x in rand_umap(rng, avail, maxlen=3) if x[2] <= 2 and abs(Fraction(x[1], x[2])) <= 3] or [item("m", 1)]
                if i and rng.random() < 0.7 and all(x[0] != order[i - 1] for x in body):
                    body = [item(order[i - 1], rng.choice([1, 1, 2, -1]))] + body
                ev(["define", order[i], body])
            elif k < 0.52:
                ev(["clear"])
            elif k < 0.65:
                stale(1)
            else:
                uses(defined)
    return steps


def session_templates():
    """deterministic small scope: every chain x every (lower name, other body) redefinition after the dependents were used;
    every name x (define, clear, [define with another body]) followed by units in the expanded form of the first body"""
    out = []
    for name, variants in sorted(VARIANTS.items()):
        first = [list(x) for x in variants[0]]
        probes = [["use", leaf(first)], ["use", ["bin", "pow", leaf(first), cst(2)]],
                  ["use", ["bin", "mul", leaf(first), leaf([item("kg", 1)])]]]
        if len(first) > 1:
            probes.append(["use", ["bin", "mul", leaf(first[:1]), leaf(first[1:])]])
        out.append([["define", name, first]] + probes + [["clear"]] + probes)
        for other in variants[1:]:
            out.append([["define", name, first], ["clear"], ["define", name, [list(x) for x in other]]] + probes)
            out.append([["define", name, first], ["define", name, [list(x) for x in other]]] + probes)
    for chain in CHAINS:
        if len(chain) < 2:
            continue
        for k in range(len(chain) - 1):
            for body in VARIANTS[chain[k]][1:]:
                for first, second in ((body, VARIANTS[chain[k]][0]), (VARIANTS[chain[k]][0], body)):
                    steps = []
                    for n in chain:
                        steps.append(["define", n, [list(x) for x in (first if n == chain[k] else VARIANTS[n][0])]])
                    probes = []
                    for d in chain[k + 1:]:
                        probes.append(["use", ["bin", "mul", leaf([item(d, 1)]), leaf([item("m", 1)])]])
                        probes.append(["use", ["bin", "div", leaf([item("s", 1)]), leaf([item(d, 2)])]])
                    steps += probes
                    steps.append(["define", chain[k], [list(x) for x in second]])
                    steps += probes
                    out.append(steps)
        # dependents first
        steps = []
        for n in reversed(chain):
            steps.append(["define", n, [list(x) for x in VARIANTS[n][0]]])
            steps.append(["use", ["bin", "mul", leaf([item(n, 1)]), leaf([item("kg", 1)])]])
        for n in chain:
            steps.append(["use", ["bin", "div", leaf([item(n, 1)]), leaf([item("m", 1)])]])
        out.append(steps)
    return out


# ---- C08 after definitions WERE active: define, use, clear through the public API, then trees with NO definition active -----
def aftermath_probes(rng, names, n=None):
    """trees for the time after the clear: the formerly defined names are plain symbols again (the expected dimension is by
    symbol), alone, in products with their former factors, and in sums that match / mismatch by symbol only"""
    out = []
    syms = list(names) + ["kg", "m", "s"]
    for _ in range(n or rng.randrange(2, 5)):
        name = rng.choice(names)
        a = leaf([item(name, rng.choice([1, 1, 2, -1]))])
        k = rng.random()
        if k < 0.2:
            t = ["un", rng.choice(["neg", "sqrt"]), a]
        elif k < 0.4:
            t = ["bin", rng.choice(["mul", "div"]), a, leaf(rand_umap(rng, syms, maxlen=2))]
        elif k < 0.55:
            u = [item(name, 1), item(rng.choice(["m", "s", "kg"]), rng.choice([1, -1]))]
            t = ["bin", rng.choice(["add", "sub"]), leaf(u), leaf(permuted(rng, u))]                     # equal by symbol
        elif k < 0.75:
            former = VARIANTS.get(name, [[["m", 1, 1]]])[0]
            t = ["bin", rng.choice(["add", "sub"]), a, leaf([list(x) for x in former])]                 # mismatch by symbol now
        elif k < 0.85:
            t = ["bin", "pow", a, cst(rng.choice([2, -1, Fraction(1, 2)]))]
        else:
            t = rand_tree(rng, rng.choice([1, 2, 3]), lambda r: rand_umap(r, syms, maxlen=3), p_other=0.0)
        out.append(["use", t])
    return out


def gen_aftermath_session(rng):
    """definitions are made and USED, then cleared through clear_unit_definitions(); the uses after the clear are C08 cases"""
    steps, events = [], []
    for _ in range(rng.choice([1, 1, 2])):
        chain = rng.choice(CHAINS)
        for n in chain:
            e = ["define", n, [list(x) for x in rng.choice(VARIANTS[n])]]
            steps.append(e)
            events.append(e)
            if rng.random() < 0.4:
                steps.extend(use_trees(rng, events, [n], 1))
        steps.extend(use_trees(rng, events, chain, rng.randrange(1, 4)))
        steps.append(["clear"])
        events.append(["clear"])
        steps.extend(aftermath_probes(rng, chain))
    return steps


def aftermath_templates():
    out = []
    for name, variants in sorted(VARIANTS.items()):
        body = [list(x) for x in variants[0]]
        n1 = leaf([item(name, 1)])
        before = [["use", ["un", "neg", n1]], ["use", ["bin", "mul", n1, leaf([item("m", 1)])]]]
        after = [["use", ["un", "neg", n1]], ["use", ["bin", "div", n1, leaf([item("kg", 1)])]],
                 ["use", ["bin", "add", n1, leaf(body)]],
                 ["use", ["bin", "sub", leaf([item(name, 1), item("m", 1)]), leaf([item("m", 1), item(name, 1)])]]]
        out.append([["define", name, body]] + before + [["clear"]] + after)
        out.append([["define", name, body], before[0], ["clear"], ["define", name, body], ["clear"]] + after)
    return out


# ---------------------------------------------------------------------------------------------
# the independent oracle: dimensional analysis with Fraction dictionaries
# ---------------------------------------------------------------------------------------------
class OutOfDomain(Exception):
    pass


class Cyclic(Exception):
    pass


def o_expand(items, defs, stack=()):
    """base-symbol dimension of a unit map when every defined name is replaced by its definition"""
    out = {}
    for n, a, b in items:
        x = Fraction(a, b)
        if n in defs:
            if n in stack:
                raise Cyclic(n)
            sub = o_expand(defs[n], defs, stack + (n,))
            for k, v in sub.items():
                out[k] = out.get(k, 0) + x * v
        else:
            out[n] = out.get(n, 0) + x
    return {k: v for k, v in out.items() if v != 0}


def o_dim(t, defs, root=True):
    """returns ('const', None) | ('dim', dict) | ('mismatch', None) ; raises OutOfDomain"""
    k = t[0]
    if k == "leaf":
        return ("dim", o_expand(t[1], defs))
    if k == "cst":
        return ("const", None)
    kids = [o_dim(x, defs, False) for x in t[2:]]
    op = t[1]
    if op == "pow":
        if t[3][0] != "cst":
            raise OutOfDomain("power is not a constant")
        kids = kids[:1]
    for kd in kids:
        if kd[0] == "mismatch":
            raise OutOfDomain("operand lost its unit")
        if kd[0] == "dim" and not kd[1]:
            raise OutOfDomain("dimensionless operand")
    if k == "un":
        (ka, da), = kids
        if ka == "const":
            raise OutOfDomain("function of a constant")
        if op == "neg":
            return ("dim", dict(da))
        if op == "sqrt":
            return ("dim", {s: v / 2 for s, v in da.items()})
        raise OutOfDomain("operator outside the grammar")
    if op == "pow":
        (ka, da), = kids
        if ka == "const":
            raise OutOfDomain("power of a constant")
        p = Fraction(t[3][1], t[3][2])
        return ("dim", {s: v * p for s, v in da.items() if v * p != 0})
    (ka, da), (kb, db) = kids
    if ka == "const" and kb == "const":
        raise OutOfDomain("two constants")
    da = da if ka == "dim" else {}
    db = db if kb == "dim" else {}
    if op in ("add", "sub"):
        if ka == "const":
            return ("dim", dict(db))
        if kb == "const":
            return ("dim", dict(da))
        if da != db:
            return ("mismatch", None)
        return ("dim", dict(da))
    if op in ("mul", "div"):
        sgn = 1 if op == "mul" else -1
        out = dict(da)
        for s, v in db.items():
            out[s] = out.get(s, 0) + sgn * v
        return ("dim", {s: v for s, v in out.items() if v != 0})
    raise OutOfDomain("operator outside the grammar")


def oracle_check(history, tree, frac=False, style=None):
    """None when the implementation agrees with dimensional analysis on this case (or the case is outside the
    property's domain); otherwise a description of the contradiction"""
    defs = defs_of(history)
    try:
        exp = o_dim(tree, defs)
    except (OutOfDomain, Cyclic):
        return None
    try:
        obs = run_tree(history, tree, frac, style=style)
    except CaseInvalid:
        return None
    return judge(obs, exp, defs, tree, frac)


def judge(obs, exp, defs, tree, frac=False):
    """compare one observation of a tree with the expected outcome exp = o_dim(tree, defs)"""
    if obs.get("exc") == "crash":
        return "building the tree raised {}".format(obs["what"])
    if obs.get("exc"):
        return "building the tree raised RecursionError although the definitions are acyclic"
    if not obs["exact"]:
        return None   # float rounding of non-dyadic exponents: outside the exact comparison
    U = _U()
    try:
        if frac:
            printed = to_items(U.parse_unit_string(obs["text"]), approx=True) if obs["text"] else []
        else:
            printed = parse_printed(obs["text"])
    except Exception as e:  # noqa
        return "the printed unit {!r} cannot be read back ({})".format(obs["text"], e)
    can_print = printable(obs)
    if exp[0] == "mismatch":
        if not obs["warned"]:
            return "operands of +/- have different dimensions but no mismatch warning was issued (unit reported: {!r})".format(obs["text"])
        if obs["unit"] or obs["text"]:
            return "a genuine mismatch must give a result without unit, got {!r}".format(obs["text"])
        return None
    want = exp[1]
    if obs["warned"]:
        return "mismatch warning although all operands of +/- agree in dimension (expected {})".format(fmt_dim(want))
    try:
        got = o_expand(obs["unit"], defs)
        got_printed = o_expand(printed, defs) if can_print else want
    except Cyclic:
        return None
    if got != want:
        return "result unit {!r} has dimension {} but dimensional analysis gives {}".format(obs["text"], fmt_dim(got), fmt_dim(want))
    if got_printed != want:
        return "printed unit {!r} has dimension {} but dimensional analysis gives {}".format(obs["text"], fmt_dim(got_printed), fmt_dim(want))
    if tree[0] == "bin" and tree[1] in ("mul", "div"):
        if any(n == 0 for _, n, _ in obs["unit"]):
            return "a cancelled unit stays in the result of * or /: {}".format(obs["unit"])
    return None


def check_one(c):
    """one self-standing case of the tree kinds: a tree, or a tree whose operand unit is changed through the setter"""
    if "idx" in c:
        return oracle_setunit(c.get("history", []), c["tree"], c["idx"], c["new"], c.get("style"))
    return oracle_check(c.get("history", []), c["tree"], c.get("frac", False), c.get("style"))


def gen_setunit(rng, history, leafgen):
    """a depth-1 tree, an operand index and the unit it is given afterwards (often the unit of the other operand, so that a
    sum that mismatched now matches, or the reverse)"""
    a, b = leaf(leafgen(rng)), leaf(leafgen(rng))
    k = rng.random()
    if k < 0.2:
        tree = ["un", rng.choice(UN_OPS), a]
    elif k < 0.3:
        tree = ["bin", "pow", a, cst(rng.choice([2, -1, Fraction(1, 2)]))]
    else:
        op = rng.choice(BIN_OPS)
        if op in ("add", "sub") and rng.random() < 0.5:
            b = leaf(permuted(rng, a[1]))
        tree = ["bin", op, a, b] if rng.random() < 0.85 else ["bin", op, cst(2), b]
    n = count_leaves(tree)
    idx = rng.randrange(n)
    r = rng.random()
    if r < 0.4 and n == 2:
        other = tree[2 + (1 - idx)][1]
        new = permuted(rng, other)
    else:
        new = leafgen(rng)
    return tree, idx, [list(x) for x in new]


def fmt_dim(d):
    return "{" + ", ".join("{}:{}".format(k, d[k]) for k in sorted(d)) + "}"


def clear_check(history, tree):
    """after clear_unit_definitions() a tree must behave exactly as without any definition"""
    try:
        a = run_tree(list(history) + [["clear"]], tree)
        b = run_tree([], tree)
    except CaseInvalid:
        return None
    if a.get("exc") or b.get("exc"):
        return "RecursionError without definitions" if (a.get("exc") or b.get("exc")) else None
    for key in ("unit", "warned", "text"):
        if a[key] != b[key]:
            return "after clearing the definitions {} is {!r}, without any definition it is {!r}".format(key, a[key], b[key])
    return None


# ---- shrinking -----------------------------------------------------------------------------------
def subtrees_replacements(t):
    """smaller variants of a tree"""
    k = t[0]
    if k == "leaf":
        items = t[1]
        for i in range(len(items)):
            if len(items) > 1:
                yield leaf(items[:i] + items[i + 1:])
        for i, (n, a, b) in enumerate(items):
            if (a, b) != (1, 1):
                yield leaf(items[:i] + [[n, 1, 1]] + items[i + 1:])
        return
    if k == "cst":
        return
    for x in t[2:]:
        if x[0] != "cst":
            yield x
    for i in range(2, len(t)):
        for r in subtrees_replacements(t[i]):
            yield t[:i] + [r] + t[i + 1:]


def shrink_tree(tree, fails, rounds=40):
    for _ in range(rounds):
        for cand in subtrees_replacements(tree):
            try:
                if fails(cand):
                    tree = cand
                    break
            except Exception:  # noqa
                continue
        else:
            return tree
    return tree


def shrink_case(history, tree, fails):
    """fails(history, tree) -> bool"""
    history = core.shrink_list(history, lambda h: fails(h, tree))
    tree = shrink_tree(tree, lambda t: fails(history, t))
    history = core.shrink_list(history, lambda h: fails(h, tree))
    return history, tree


def load_corpus(prop_id):
    d = os.path.join(core.VERIF, "corpus", prop_id)
    out = []
    if os.path.isdir(d):
        for f in sorted(os.listdir(d)):
            if f.endswith(".json"):
                out.append(json.load(open(os.path.join(d, f))))
    return out
