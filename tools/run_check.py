#!/venv/bin/python
"""Decision procedure of one check (DESIGN.md section 2.3).

  run_check.py Cxx [--tier quick|thorough] [--replay FILE] [--keep-cases]

 1 translate /repo -> coq/Gen/*.v              (failure = broken obligation)
 2 make Props/Cxx.vo                            (failure = broken obligation, names the lemma)
 3 Print Assumptions of every property theorem  (axiom outside the allow-list = broken obligation)
 4 correspondence model <-> implementation      (disagreement = broken correspondence)
 5 property-level oracle on the implementation  (independent of the model)
 6 decide: known findings, VIOLATION lines, evidence file
"""
import argparse
import importlib
import json
import os
import sys
import time
import traceback

HERE = os.path.dirname(os.path.abspath(__file__))
sys.path.insert(0, HERE)
os.environ.setdefault("PYTHONHASHSEED", "0")
os.environ.setdefault("MPLBACKEND", "Agg")

from vlib import core, coq  # noqa: E402
from vlib.core import Ctx, Violation  # noqa: E402

TRUSTED_COMMON = [
    "Rocq/Coq 8.16.1 kernel (coqc); vm_compute used for case files and finite computations; native_compute not used",
    "tools/translate.py: Python-ast -> Gallina printer and vocabulary map (fail-closed)",
    "correspondence harness: generators, encoding of inputs/observations into cases_*.v, exception -> enum map",
    "Python 3.12 / numpy / scipy / matplotlib as installed in /venv",
]


def load_findings():
    path = os.path.join(core.VERIF, "known_findings.json")
    if not os.path.exists(path):
        return []
    return json.load(open(path)).get("findings", [])


def write_replay(prop_id, payload):
    d = os.path.join(core.VERIF, "replays")
    os.makedirs(d, exist_ok=True)
    name = "{}-{}.json".format(prop_id, core.canonical_key("r", payload).split(":")[1])
    path = os.path.join(d, name)
    with open(path, "w") as f:
        json.dump(payload, f, indent=1, sort_keys=True, default=str)
    return path


def main():
    ap = argparse.ArgumentParser()
    ap.add_argument("prop")
    ap.add_argument("--tier", default=os.environ.get("VERIF_TIER", "quick"))
    ap.add_argument("--replay")
    ap.add_argument("--keep-cases", action="store_true")
    ap.add_argument("--no-build", action="store_true", help="development only: skip translate/make")
    args = ap.parse_args()
    tier = "thorough" if args.tier.startswith("t") else "quick"
    try:
        seed = int(os.environ.get("VERIF_SEED", "0"))
    except ValueError:
        seed = 0
    prop_id = args.prop.upper()
    mod = importlib.import_module("props." + prop_id.lower())
    ctx = Ctx(prop_id, tier, seed)
    ctx.keep_cases = args.keep_cases

    if args.replay:
        return replay(mod, ctx, args.replay)

    t0 = time.time()
    broken = []           # obligations / correspondences that no longer check
    axioms = {}
    obligations = []
    discharged = 0

    # 1 translate ------------------------------------------------------------------
    if not args.no_build:
        broken += coq.translate_all(getattr(mod, "GEN", []))
        gate = coq.grep_gate()
        broken += ["forbidden-vernacular:" + g for g in gate]

    # 2 build ------------------------------------------------------------------------
    props_rel = mod.PROPS_FILE
    built = False
    if not broken or all(not b.startswith("translate:") for b in broken):
        ok, obligation, log = (True, None, "") if args.no_build else coq.make(
            [props_rel + "o"] + [m + "o" for m in getattr(mod, "EXTRA_TARGETS", [])])
        if not ok:
            broken.append("proof:" + obligation)
            # the models may still build even though a proof does not
            okm, _, _ = coq.make([m + "o" for m in getattr(mod, "MODEL_TARGETS", [])]) \
                if getattr(mod, "MODEL_TARGETS", []) else (False, None, "")
            built = okm
        else:
            built = True
            # 3 assumptions ----------------------------------------------------------
            ok, axioms, alog = coq.print_assumptions(props_rel)
            if not ok:
                broken.append("proof:{}: Print Assumptions did not run ({})".format(
                    props_rel, alog.strip().split("\n")[-1][:160]))
            for thm, axs in axioms.items():
                for a in axs:
                    if a not in coq.ALLOWED_AXIOMS and a.split(".")[-1] not in coq.ALLOWED_AXIOMS:
                        broken.append("axiom:{} depends on {}".format(thm, a))
            if not axioms:
                broken.append("proof:{}: no property theorem found".format(props_rel))
    try:
        obligations = coq.count_obligations(props_rel)
    except Exception:
        obligations = []
    discharged = len(obligations) if built and not any(b.startswith("proof:") for b in broken) else 0

    ctx.notes.append('t_build={:.1f}s'.format(time.time()-t0))
    # 4 correspondence ---------------------------------------------------------------
    qexpy = core.setup_impl()
    corr = core.CorrResult()
    suspects = []
    try:
        if built:
            corr = mod.correspondence(ctx)
            for d in corr.disagreements:
                broken.append("correspondence:{}".format(d.get("name", "?")))
                suspects.append(d)
        else:
            ctx.notes.append("models did not build: correspondence skipped")
    except Exception as e:  # the harness itself failed: the tie is not established
        broken.append("correspondence:harness-error:{}: {}".format(type(e).__name__, str(e)[:200]))
        ctx.notes.append(traceback.format_exc()[-1500:])

    ctx.notes.append('t_corr={:.1f}s'.format(time.time()-t0))
    # 5 oracle -----------------------------------------------------------------------
    violations = []
    try:
        budget = (20 if tier == "quick" else 300) if broken else (8 if tier == "quick" else 60)
        violations = mod.search(ctx, suspects, budget)
    except Exception as e:
        broken.append("oracle:harness-error:{}: {}".format(type(e).__name__, str(e)[:200]))
        ctx.notes.append(traceback.format_exc()[-1500:])

    ctx.notes.append('t_oracle={:.1f}s'.format(time.time()-t0))
    # 6 decide -----------------------------------------------------------------------
    findings = load_findings()
    known = {f["key"]: f for f in findings if f.get("status") == "known" and f.get("property") == prop_id}
    new_violations, known_hit = [], []
    seen_keys = set()
    for v in violations:
        if v.key in seen_keys:
            continue
        seen_keys.add(v.key)
        if v.key in known:
            known_hit.append(v)
        else:
            new_violations.append(v)
    printed = set()
    for v in known_hit:
        if v.key not in printed:
            print("KNOWN-FINDING: property={} {}".format(prop_id, known[v.key].get("what", v.what)))
            printed.add(v.key)

    exit_code = 0
    nviol = 0
    # every reported input is re-run in a FRESH interpreter (./check --replay): a failure that only shows up after
    # other cases have run in the same process (a cache, a class attribute, a module-level table left behind) is still
    # reported, but flagged, and inputs that reproduce on their own are listed first
    confirmed = []
    for v in new_violations[:6]:
        payload = {"violation": v.to_json(), "broken": broken, "seed": seed, "tier": tier}
        path = write_replay(prop_id, payload)
        try:
            import subprocess
            r = subprocess.run([sys.executable, os.path.abspath(__file__), prop_id, "--replay", path],
                               stdout=subprocess.PIPE, stderr=subprocess.STDOUT, text=True, timeout=600,
                               env=dict(os.environ))
            fresh = r.returncode == 1
        except Exception:
            fresh = None
        payload["reproduces_in_fresh_process"] = fresh
        with open(path, "w") as f:
            json.dump(payload, f, indent=1, sort_keys=True, default=str)
        confirmed.append((0 if fresh else 1, v, path, fresh))
    confirmed.sort(key=lambda t: t[0])
    for _, v, path, fresh in confirmed[:5]:
        print("VIOLATION property={} replay={}".format(prop_id, path))
        print("  " + v.what[:300])
        if fresh is False:
            print("  (note: this input fails after the cases that ran before it in this process, not on its own in a fresh "
                  "interpreter: the failure depends on state the library keeps between calls)")
        exit_code = 1
        nviol += 1
    # a broken obligation that is fully explained by known findings is not reported again
    if broken and not new_violations:
        path = write_replay(prop_id, {"broken": broken, "suspects": suspects[:10], "seed": seed, "tier": tier,
                                      "notes": ctx.notes,
                                      "explanation": "these proof obligations / correspondences no longer check; "
                                                     "the property-level search found no failing input"})
        print("VIOLATION property={} replay={} no-failing-input-found".format(prop_id, path))
        for b in broken[:8]:
            print("  broken: " + b[:300])
        exit_code = 1
        nviol += 1
    elif broken:
        for b in broken[:8]:
            print("  broken: " + b[:300])

    # evidence -----------------------------------------------------------------------
    wall = time.time() - t0
    ev = {
        "property_id": prop_id, "tier": tier, "seed": seed, "level": "proof", "wall_s": round(wall, 2),
        "violations": nviol,
        "coverage": {
            "obligations": max(1, len(obligations)),
            "discharged": discharged,
            "obligation_names": obligations[:400],
            "property_theorems": sorted(axioms),
            "axioms": {k: v for k, v in axioms.items()},
            "checker_cmd": "cd /verif/coq && make {0}o && coqc -Q . QV {0}   (full .vo build, Print Assumptions per theorem)".format(props_rel),
            "trusted_base": TRUSTED_COMMON + list(getattr(mod, "TRUSTED", [])),
            "generated_from_source": list(getattr(mod, "GEN", [])),
            "evaluations": corr.evaluations,
            "distinct_nontrivial": len(corr.nontrivial),
            "rule": corr.rule,
            "samples": corr.samples[:6] if corr.samples else [{"note": "no correspondence case was run"}],
            "input_distribution": corr.distribution,
            "traces_validated_against_impl": corr.traces,
            "disagreements_checked": len(corr.disagreements),
            "exhaustive": corr.exhaustive,
            "oracle_violations_found": len(violations),
            "known_findings_seen": sorted(printed),
            "broken": broken,
            "notes": ctx.notes,
            **corr.extra,
        },
        "assumptions": list(getattr(mod, "ASSUMPTIONS", [])),
    }
    os.makedirs(os.path.join(core.VERIF, "evidence"), exist_ok=True)
    with open(os.path.join(core.VERIF, "evidence", prop_id + ".json"), "w") as f:
        json.dump(ev, f, indent=1, default=str)
    print("{} {}: obligations {}/{} axioms {} | correspondence {} cases ({} distinct non-trivial, {} disagreements) | "
          "oracle violations {} | {:.1f}s".format(
              prop_id, tier, discharged, len(obligations), sorted({a for v in axioms.values() for a in v}) or "none",
              corr.evaluations, len(corr.nontrivial), len(corr.disagreements), len(violations), wall))
    return exit_code


def replay(mod, ctx, path):
    data = json.load(open(path))
    core.setup_impl()
    if "violation" not in data:
        print("replay: this file names broken obligations, no failing input: {}".format(data.get("broken")))
        return 1
    v = data["violation"]
    res = mod.replay(ctx, v)
    if res is not None:
        print("VIOLATION property={} replay={}".format(ctx.prop_id, path))
        print("  " + res.what[:300])
        return 1
    print("replay: the recorded input no longer violates {}".format(ctx.prop_id))
    return 0


if __name__ == "__main__":
    sys.exit(main())
