#!/usr/bin/env python3
"""Evaluate one seeded change against the machinery.

  seedtest.py <property id> <dir with patch.diff, demo.py, notes.md> [--keep <name>] [--tier quick|thorough] [--benign] [--also Cxx ...]

Steps (all on a scratch copy of /repo, /repo itself is never touched):
  1 the patch applies to the current /repo tree
  2 the 47 existing tests still pass with it
  3 demo.py fails (exit != 0) with the change and passes (exit 0) without it
  4 ./check <id> (QEXPY_REPO=<scratch>) reports a VIOLATION; the replay fails on the changed tree and passes on /repo
With --benign the change is a behaviour-preserving refactoring: the demo must pass on both trees and the expected outcome
of the check is exit 0 with no VIOLATION line (a no-failing-input-found report is recorded as such: tie broken, no witness).
With --keep the case is stored under /verif/seeded/<name>/ (patch.diff, demo.py, notes.md, meta.json).
"""
import json
import os
import re
import shutil
import subprocess
import sys

VERIF = os.path.dirname(os.path.dirname(os.path.abspath(__file__)))
SCRATCH = "/tmp/seedtest_repo_{}".format(os.getpid())
VCOPY = "/tmp/seedtest_verif_{}".format(os.getpid())   # private copy of /verif (generated files and build are per run)
PY = "/venv/bin/python"


def sh(cmd, env=None, cwd=None, timeout=3600):
    e = dict(os.environ)
    e.update(env or {})
    p = subprocess.run(cmd, shell=True, cwd=cwd, env=e, stdout=subprocess.PIPE, stderr=subprocess.STDOUT, text=True,
                       timeout=timeout)
    return p.returncode, p.stdout


def main():
    args = sys.argv[1:]
    pid, d = args[0], os.path.abspath(args[1])
    keep = args[args.index("--keep") + 1] if "--keep" in args else None
    tier = args[args.index("--tier") + 1] if "--tier" in args else "quick"
    benign = "--benign" in args
    also = args[args.index("--also") + 1:] if "--also" in args else []
    meta = {"property": pid, "source_dir": d, "tier": tier, "kind": "benign" if benign else "breaking"}
    shutil.rmtree(SCRATCH, ignore_errors=True)
    sh("rsync -a --exclude .git /repo/ {}/".format(SCRATCH))
    rc, out = sh("patch -p1 --no-backup-if-mismatch < {}/patch.diff".format(d), cwd=SCRATCH)
    meta["patch_applies"] = rc == 0
    if rc != 0:
        print("PATCH DOES NOT APPLY\n" + out[-600:])
        return finish(meta, keep, d, 2)
    rc, out = sh("{} -m pytest -q -p no:cacheprovider --timeout=900 2>&1 | tail -3".format(PY), cwd=SCRATCH,
                 env={"PYTHONPATH": SCRATCH, "MPLBACKEND": "Agg"})
    m = re.search(r"(\d+) passed", out)
    meta["tests_with_change"] = out.strip().split("\n")[-1]
    meta["tests_pass"] = bool(m) and int(m.group(1)) == 47 and "failed" not in out
    rc1, out1 = sh("{} {}/demo.py".format(PY, d), cwd=SCRATCH, env={"PYTHONPATH": SCRATCH, "MPLBACKEND": "Agg"}, timeout=900)
    rc0, out0 = sh("{} {}/demo.py".format(PY, d), cwd="/repo", env={"PYTHONPATH": "/repo", "MPLBACKEND": "Agg"}, timeout=900)
    meta["demo_with_change_exit"] = rc1
    meta["demo_without_change_exit"] = rc0
    meta["demo_output_with_change"] = out1[-400:]
    print("tests:", meta["tests_with_change"], "| demo with change exit", rc1, "| without", rc0)
    results = {}
    shutil.rmtree(VCOPY, ignore_errors=True)
    sh("rsync -a --exclude .git --exclude replays --exclude seeded {}/ {}/".format(VERIF, VCOPY))
    for p in [pid] + also:
        rc, out = sh("./check {} --tier {}".format(p, tier), cwd=VCOPY, env={"QEXPY_REPO": SCRATCH})
        viol = re.findall(r"VIOLATION property=(\S+) replay=(\S+)( no-failing-input-found)?", out)
        res = {"exit": rc, "violations": len(viol), "no_failing_input": any(v[2] for v in viol),
               "lines": [l.replace(VCOPY, VERIF) for l in out.split("\n") if l.strip()][:8]}
        # replay the first concrete violation on both trees
        conc = [v for v in viol if not v[2]]
        if conc:
            rp = conc[0][1]
            r_m, _ = sh("./check {} --replay {}".format(p, rp), cwd=VCOPY, env={"QEXPY_REPO": SCRATCH})
            r_o, _ = sh("./check {} --replay {}".format(p, rp), cwd=VCOPY, env={"QEXPY_REPO": "/repo"})
            res["replay_fails_on_change"] = r_m == 1
            res["replay_passes_on_original"] = r_o == 0
            try:
                res["replay"] = json.load(open(rp)).get("violation", {}).get("what", "")[:300]
            except Exception:
                pass
        results[p] = res
        print(p, "->", "VIOLATION" if viol else "not detected", "(no-failing-input-found)" if res["no_failing_input"] and not conc else "",
              res.get("replay", "")[:160])
    meta["checks"] = results
    shutil.rmtree(SCRATCH, ignore_errors=True)
    shutil.rmtree(VCOPY, ignore_errors=True)
    ok = meta["tests_pass"] and (rc1 == 0 if benign else rc1 != 0) and rc0 == 0
    meta["valid_seed"] = ok
    meta["detected"] = results[pid]["violations"] > 0
    if benign:
        meta["alarm"] = meta.pop("detected")
        meta["alarm_with_input"] = any("replay" in r for r in results.values())
    return finish(meta, keep, d, 0 if ok else 3)


def finish(meta, keep, d, code):
    if keep:
        dst = os.path.join(VERIF, "seeded", keep)
        os.makedirs(dst, exist_ok=True)
        for f in ("patch.diff", "demo.py", "notes.md"):
            if os.path.exists(os.path.join(d, f)) and os.path.abspath(os.path.join(d, f)) != os.path.abspath(os.path.join(dst, f)):
                shutil.copy(os.path.join(d, f), os.path.join(dst, f))
        with open(os.path.join(dst, "meta.json"), "w") as f:
            json.dump(meta, f, indent=1)
    print(json.dumps({k: v for k, v in meta.items() if k not in ("checks", "demo_output_with_change")}))
    return code


if __name__ == "__main__":
    sys.exit(main())
