"""Fail-closed Python-ast -> Gallina translator for the table-like / validation code of QExPy.

Every generator reads files under REPO (default /repo), and returns the text of one
coq/Gen/<Name>.v file.  Anything outside the recognised subset raises TranslateError
naming the file and the AST node, which the check reports as a broken obligation
"translate:<file>:<line>:<what>".

Usage:  translate.py [--repo DIR] [--out DIR] [names...]
"""
import ast
import copy
import os
import sys
from fractions import Fraction

REPO = os.environ.get("QEXPY_REPO", "/repo")


class TranslateError(Exception):
    def __init__(self, file, node, msg):
        line = getattr(node, "lineno", 0)
        self.obligation = "translate:{}:{}:{}".format(file, line, msg)
        super().__init__(self.obligation)


def coq_string(s):
    for ch in s:
        if ord(ch) > 126 or ord(ch) < 32:
            raise ValueError("non-ascii in string literal " + repr(s))
    return '"' + s.replace('"', '""') + '"'


def qlit(x):
    fr = Fraction(x)
    return "({} # {})".format(fr.numerator, fr.denominator)


def zlit(n):
    return "({})%Z".format(n)


def load_literals(repo):
    """settings/literals.py: NAME = "string" assignments only"""
    path = os.path.join(repo, "qexpy/settings/literals.py")
    tree = ast.parse(open(path).read())
    lits = {}
    for node in tree.body:
        if isinstance(node, ast.Expr) and isinstance(node.value, ast.Constant):
            continue  # docstring
        if (isinstance(node, ast.Assign) and len(node.targets) == 1
                and isinstance(node.targets[0], ast.Name)
                and isinstance(node.value, ast.Constant) and isinstance(node.value.value, str)):
            lits[node.targets[0].id] = node.value.value
        else:
            raise TranslateError("qexpy/settings/literals.py", node, "not NAME = string")
    return lits


def strip_doc(body):
    if body and isinstance(body[0], ast.Expr) and isinstance(body[0].value, ast.Constant) \
            and isinstance(body[0].value.value, str):
        return body[1:]
    return body


# ----------------------------------------------------------------------------------------
# generic expression / statement translation over Base/Py.v combinators
# ----------------------------------------------------------------------------------------

class PyTr:
    """Translates a restricted Python subset to the combinators of Base/Py.v"""

    TYPES = {"int": "T_int", "float": "T_float", "str": "T_str", "tuple": "T_tuple",
             "list": "T_list", "bool": "T_bool", "Real": "T_real"}
    EXNS = {"ValueError": "ValueError", "TypeError": "TypeError", "IndexError": "IndexError",
            "KeyError": "KeyError"}
    CMP = {ast.Lt: "Lt", ast.LtE: "Le", ast.Gt: "Gt", ast.GtE: "Ge", ast.Eq: "Eq", ast.NotEq: "Ne"}

    def __init__(self, file, lits, enums, store_attr):
        self.file, self.lits, self.enums, self.store_attr = file, lits, enums, store_attr
        self.procs = {}  # property / method name -> Gallina name of translated procedure
        self.module_helpers = {}  # private module-level function name -> FunctionDef (single return), inlined at its calls
        self.dicts = {}    # local name -> ast.Dict it is bound to (a table of defaults handed around inside one method)
        self.helpers = {}  # private method name (as written, e.g. __is_positive_int) -> FunctionDef, inlined at its calls
        self.depth = 0

    # -- private helper methods are inlined at their call sites (parameters replaced by the argument expressions) ----
    def helper_call(self, node):
        """(FunctionDef, {param: argument ast}) when [node] is self.<private helper>(args) / ClassName.<helper>(args)"""
        if isinstance(node, ast.Call) and isinstance(node.func, ast.Name) and node.func.id in self.module_helpers \
                and not node.keywords:
            fn = self.module_helpers[node.func.id]
            params = [a.arg for a in fn.args.args]
            if len(params) != len(node.args) or fn.args.vararg or fn.args.kwarg or fn.args.kwonlyargs or fn.args.defaults:
                self.err(node, "helper call arity")
            if any(not isinstance(a, (ast.Name, ast.Constant, ast.Attribute)) for a in node.args):
                self.err(node, "helper call argument (names and constants only)")
            return fn, dict(zip(params, node.args))
        if isinstance(node, ast.Call) and isinstance(node.func, ast.Attribute) and isinstance(node.func.value, ast.Name) \
                and node.func.attr in self.helpers and not node.keywords:
            fn = self.helpers[node.func.attr]
            params = [a.arg for a in fn.args.args]
            static = any(ast.unparse(d) == "staticmethod" for d in fn.decorator_list)
            if not static:
                if node.func.value.id != "self" or not params:
                    self.err(node, "helper call receiver")
                params = params[1:]
            if len(params) != len(node.args) or fn.args.vararg or fn.args.kwarg or fn.args.kwonlyargs or fn.args.defaults:
                self.err(node, "helper call arity")
            if any(not isinstance(a, (ast.Name, ast.Constant, ast.Attribute)) for a in node.args):
                self.err(node, "helper call argument (names and constants only)")
            return fn, dict(zip(params, node.args))
        return None

    def dict_of(self, node):
        """the dictionary literal denoted by: a literal, a local bound to one, <local>.pop(key) (which removes the entry
        from the local's table), or a call of a parameterless private helper whose body is `return {...}`"""
        if isinstance(node, ast.Dict):
            return copy.deepcopy(node)
        if isinstance(node, ast.Name) and node.id in self.dicts:
            return self.dicts[node.id]
        if isinstance(node, ast.Call) and isinstance(node.func, ast.Attribute) and node.func.attr == "pop" \
                and isinstance(node.func.value, ast.Name) and node.func.value.id in self.dicts and len(node.args) == 1 \
                and not node.keywords:
            d = self.dicts[node.func.value.id]
            want = ast.dump(node.args[0])
            for i, k in enumerate(d.keys):
                if k is not None and ast.dump(k) == want:
                    d.keys.pop(i)
                    return d.values.pop(i)
            self.err(node, "pop of a key that is not in the table")
        hc = self.helper_call(node) if isinstance(node, ast.Call) else None
        if hc and not hc[1]:
            body = strip_doc(hc[0].body)
            if len(body) == 1 and isinstance(body[0], ast.Return) and isinstance(body[0].value, ast.Dict):
                return copy.deepcopy(body[0].value)
        return None

    def subst(self, nodes, mapping):
        class S(ast.NodeTransformer):
            def visit_Name(self, n):
                return copy.deepcopy(mapping[n.id]) if n.id in mapping and isinstance(n.ctx, ast.Load) else n
        stores = [n.id for b in nodes for n in ast.walk(b) if isinstance(n, ast.Name) and isinstance(n.ctx, ast.Store)]
        if any(x in mapping for x in stores):
            self.err(nodes[0], "helper assigns to its parameter")
        return [S().visit(copy.deepcopy(b)) for b in nodes]

    def inline_guard(self, node):
        self.depth += 1
        if self.depth > 6:
            self.err(node, "helper inlining too deep (recursion?)")

    def err(self, node, msg):
        raise TranslateError(self.file, node, msg)

    # -- constants -------------------------------------------------------------------
    def const_pv(self, node):
        """a constant Python expression as a Gallina pv term"""
        if isinstance(node, ast.Constant):
            v = node.value
            if v is None:
                return "PNone"
            if isinstance(v, bool):
                return "(PBool {})".format("true" if v else "false")
            if isinstance(v, int):
                return "(PInt {})".format(zlit(v))
            if isinstance(v, float):
                return "(PFloat {})".format(qlit(v))
            if isinstance(v, str):
                return "(PStr {})".format(coq_string(v))
            self.err(node, "constant " + repr(v))
        if isinstance(node, ast.UnaryOp) and isinstance(node.op, ast.USub) \
                and isinstance(node.operand, ast.Constant) and isinstance(node.operand.value, (int, float)) \
                and not isinstance(node.operand.value, bool):
            v = -node.operand.value
            return "(PInt {})".format(zlit(v)) if isinstance(v, int) else "(PFloat {})".format(qlit(v))
        if isinstance(node, ast.Attribute) and isinstance(node.value, ast.Name):
            if node.value.id == "lit":
                if node.attr not in self.lits:
                    self.err(node, "unknown literal lit." + node.attr)
                return "(PStr {})".format(coq_string(self.lits[node.attr]))
            if node.value.id in self.enums:
                if node.attr not in dict(self.enums[node.value.id]):
                    self.err(node, "unknown enum member")
                return "(PEnum {} {})".format(coq_string(node.value.id), coq_string(node.attr))
        if isinstance(node, ast.Tuple):
            return "(PTuple [{}])".format("; ".join(self.const_pv(e) for e in node.elts))
        if isinstance(node, ast.List):
            return "(PList [{}])".format("; ".join(self.const_pv(e) for e in node.elts))
        self.err(node, "not a constant: " + ast.dump(node)[:60])

    def key_of(self, node):
        """self.<store>[lit.A][lit.B] -> "a.b" """
        keys = []
        while isinstance(node, ast.Subscript):
            k = node.slice
            if isinstance(k, ast.Attribute) and isinstance(k.value, ast.Name) and k.value.id == "lit" \
                    and k.attr in self.lits:
                keys.append(self.lits[k.attr])
            elif isinstance(k, ast.Constant) and isinstance(k.value, str):
                keys.append(k.value)
            else:
                self.err(node, "store key")
            node = node.value
        if not (isinstance(node, ast.Attribute) and isinstance(node.value, ast.Name)
                and node.value.id == "self" and node.attr == self.store_attr):
            return None
        return ".".join(reversed(keys))

    def types_of(self, node):
        elts = node.elts if isinstance(node, ast.Tuple) else [node]
        out = []
        for e in elts:
            if isinstance(e, ast.Name) and e.id in self.TYPES:
                out.append(self.TYPES[e.id])
            elif isinstance(e, ast.Name) and e.id in self.enums:
                out.append("(T_enum {})".format(coq_string(e.id)))
            else:
                self.err(e, "isinstance type")
        return "[{}]".format("; ".join(out))

    # -- expressions -----------------------------------------------------------------
    def expr(self, node, env):
        """Gallina term of type [res pv]; [env] = set of bound pv variable names; [s] is the store"""
        if isinstance(node, ast.Name) and node.id in env:
            return "(Ok {})".format(env[node.id])
        if isinstance(node, ast.Subscript):
            key = self.key_of(node)
            if key is not None:
                return "(sget s {})".format(coq_string(key))
            self.err(node, "subscript")
        if isinstance(node, ast.BoolOp):
            comb = "e_and" if isinstance(node.op, ast.And) else "e_or"
            terms = [self.expr(v, env) for v in node.values]
            out = terms[-1]
            for t in reversed(terms[:-1]):
                out = "({} {} (fun _ => {}))".format(comb, t, out)
            return out
        if isinstance(node, ast.UnaryOp) and isinstance(node.op, ast.Not):
            return "(e_not {})".format(self.expr(node.operand, env))
        if isinstance(node, ast.Compare) and len(node.ops) == 1:
            op, right = node.ops[0], node.comparators[0]
            left = self.expr(node.left, env)
            if type(op) in self.CMP:
                return "(e_cmp {} {} {})".format(self.CMP[type(op)], left, self.expr(right, env))
            if isinstance(op, (ast.In, ast.NotIn)) and isinstance(right, (ast.List, ast.Tuple)):
                term = "(e_in {} [{}])".format(left, "; ".join(self.const_pv(e) for e in right.elts))
                return term if isinstance(op, ast.In) else "(e_not {})".format(term)
            self.err(node, "comparison")
        hc = self.helper_call(node)
        if hc:
            fn, mapping = hc
            body = strip_doc(fn.body)
            if len(body) != 1 or not isinstance(body[0], ast.Return) or body[0].value is None:
                self.err(node, "helper used in an expression must be a single return")
            self.inline_guard(node)
            try:
                return self.expr(self.subst([body[0].value], mapping)[0], env)
            finally:
                self.depth -= 1
        if isinstance(node, ast.Call) and isinstance(node.func, ast.Name) and not node.keywords:
            f, args = node.func.id, node.args
            if f == "isinstance" and len(args) == 2:
                return "(e_isinstance {} {})".format(self.expr(args[0], env), self.types_of(args[1]))
            if f == "len" and len(args) == 1:
                return "(e_len {})".format(self.expr(args[0], env))
            if f == "any" and len(args) == 1 and isinstance(args[0], ast.GeneratorExp):
                g = args[0]
                if len(g.generators) != 1 or g.generators[0].ifs or g.generators[0].is_async \
                        or not isinstance(g.generators[0].target, ast.Name):
                    self.err(node, "generator shape")
                var = g.generators[0].target.id
                env2 = dict(env)
                env2[var] = "v_" + var
                return "(e_any {} (fun v_{} => {}))".format(
                    self.expr(g.generators[0].iter, env), var, self.expr(g.elt, env2))
            if f in self.enums and len(args) == 1:
                return "(bind {} (enum_lookup {} members_{}))".format(
                    self.expr(args[0], env), coq_string(f), f)
            self.err(node, "call " + f)
        try:
            return "(Ok {})".format(self.const_pv(node))
        except TranslateError:
            self.err(node, "expression " + ast.dump(node)[:80])

    # -- statements ------------------------------------------------------------------
    def stmts(self, body, env):
        body = strip_doc(body)
        if not body:
            return "s_skip"
        terms = [self.stmt(b, env) for b in body]
        out = terms[-1]
        for t in reversed(terms[:-1]):
            out = "(s_seq {} {})".format(t, out)
        return out

    def stmt(self, node, env):
        if isinstance(node, ast.If):
            return "(s_if (fun s => {})\n      {}\n      {})".format(
                self.expr(node.test, env), self.stmts(node.body, env), self.stmts(node.orelse, env))
        if isinstance(node, ast.Raise) and isinstance(node.exc, ast.Call) \
                and isinstance(node.exc.func, ast.Name) and node.exc.func.id in self.EXNS:
            return "(s_raise {})".format(self.EXNS[node.exc.func.id])
        if isinstance(node, ast.Assign) and len(node.targets) == 1:
            tgt = node.targets[0]
            if isinstance(tgt, ast.Subscript):
                key = self.key_of(tgt)
                if key is None:
                    self.err(node, "assignment target")
                return "(s_assign {} (fun s => {}))".format(coq_string(key), self.expr(node.value, env))
            if isinstance(tgt, ast.Attribute) and isinstance(tgt.value, ast.Name) and tgt.value.id == "self" \
                    and tgt.attr in self.procs:
                return "(s_call {} (fun s => {}))".format(self.procs[tgt.attr], self.expr(node.value, env))
        if isinstance(node, ast.Assign) and len(node.targets) == 1 and isinstance(node.targets[0], ast.Name):
            d = self.dict_of(node.value)
            if d is None or not isinstance(d, ast.Dict):
                self.err(node, "local assignment (only a table of defaults may be bound to a local)")
            self.dicts[node.targets[0].id] = d
            return "s_skip"
        if isinstance(node, ast.For) and not node.orelse and isinstance(node.target, ast.Name) and len(node.body) == 1 \
                and isinstance(node.body[0], ast.If) and not node.body[0].orelse and len(node.body[0].body) == 1 \
                and isinstance(node.body[0].body[0], ast.Raise):
            # for x in xs: if c(x): raise E      ==      if any(c(x) for x in xs): raise E
            gen = ast.GeneratorExp(elt=node.body[0].test, generators=[ast.comprehension(
                target=node.target, iter=node.iter, ifs=[], is_async=0)])
            test = ast.Call(func=ast.Name(id="any", ctx=ast.Load()), args=[gen], keywords=[])
            return self.stmt(ast.copy_location(ast.If(test=test, body=node.body[0].body, orelse=[]), node), env)
        if isinstance(node, ast.Expr) and self.helper_call(node.value):
            fn, mapping = self.helper_call(node.value)
            if any(isinstance(n, ast.Return) for b in fn.body for n in ast.walk(b)):
                self.err(node, "helper used as a statement must not return")
            self.inline_guard(node)
            try:
                return self.stmts(self.subst(strip_doc(fn.body), mapping), env)
            finally:
                self.depth -= 1
        if isinstance(node, ast.Expr) and isinstance(node.value, ast.Call) and isinstance(node.value.func, ast.Attribute) \
                and node.value.func.attr == "update" and len(node.value.args) == 1 and not node.value.keywords \
                and isinstance((upd := self.dict_of(node.value.args[0])), ast.Dict):
            # <store>[...].update({k: v, ...}) with a literal dictionary = the item assignments in the order written
            base = node.value.func.value
            prefix = self.key_of(ast.Subscript(value=base, slice=ast.Constant("@")))
            if prefix is None:
                self.err(node, "update target")
            prefix = prefix[:-1]          # "a.b.@" -> "a.b."   ("@" -> "")
            d = upd
            terms = []
            for k, v in zip(d.keys, d.values):
                if k is None or isinstance(v, ast.Dict):
                    self.err(node, "update entry")
                key = self.key_of(ast.Subscript(value=base, slice=k))
                terms.append("(s_assign {} (fun s => {}))".format(coq_string(key), self.expr(v, env)))
            if not terms:
                return "s_skip"
            out = terms[-1]
            for t in reversed(terms[:-1]):
                out = "(s_seq {} {})".format(t, out)
            return out
        self.err(node, "statement " + type(node).__name__)


# ----------------------------------------------------------------------------------------
# Gen/SettingsGen.v  from qexpy/settings/settings.py
# ----------------------------------------------------------------------------------------

def gen_settings(repo):
    file = "qexpy/settings/settings.py"
    lits = load_literals(repo)
    tree = ast.parse(open(os.path.join(repo, file)).read())

    def terr(node, msg):
        raise TranslateError(file, node, msg)

    # Enum classes
    enums = {}
    settings_cls = None
    funcs = {}
    for node in tree.body:
        if isinstance(node, ast.ClassDef) and [getattr(b, "id", None) for b in node.bases] == ["Enum"]:
            members = []
            for b in strip_doc(node.body):
                if isinstance(b, ast.Assign) and len(b.targets) == 1 and isinstance(b.targets[0], ast.Name) \
                        and isinstance(b.value, ast.Attribute) and isinstance(b.value.value, ast.Name) \
                        and b.value.value.id == "lit" and b.value.attr in lits:
                    members.append((b.targets[0].id, lits[b.value.attr]))
                else:
                    terr(b, "enum member")
            enums[node.name] = members
        elif isinstance(node, ast.ClassDef) and node.name == "Settings":
            settings_cls = node
        elif isinstance(node, ast.FunctionDef):
            funcs[node.name] = node
    if settings_cls is None:
        terr(tree, "class Settings not found")

    tr = PyTr(file, lits, enums, "__config")
    out = ["(* GENERATED by tools/translate.py from {} -- do not edit *)".format(file),
           "From Coq Require Import List ZArith QArith Bool String.",
           "From QV Require Import Base.Py.",
           "Import ListNotations.", "Open Scope string_scope.", ""]
    for name, members in enums.items():
        out.append("Definition members_{} : list (string * pv) :=\n  [{}].".format(
            name, "; ".join("({}, PStr {})".format(coq_string(m), coq_string(v)) for m, v in members)))
    out.append("")

    def flat_dict(d, prefix):
        items = []
        if not isinstance(d, ast.Dict):
            terr(d, "dict literal expected")
        for k, v in zip(d.keys, d.values):
            if not (isinstance(k, ast.Attribute) and getattr(k.value, "id", None) == "lit" and k.attr in lits):
                terr(k, "config key")
            key = prefix + lits[k.attr]
            if isinstance(v, ast.Dict):
                items.extend(flat_dict(v, key + "."))
            else:
                items.append((key, tr.const_pv(v)))
        return items

    getters, api = [], []
    seen_init = False
    public_calls = set()
    for node in ast.walk(tree):
        if isinstance(node, ast.Attribute) and isinstance(node.value, ast.Call) and ast.unparse(node.value) == "get_settings()":
            public_calls.add(node.attr)
    for node in strip_doc(settings_cls.body):
        # private methods (not reachable through get_settings().<name>) that are not properties are helpers: inlined
        if isinstance(node, ast.FunctionDef) and node.name.startswith("_") and not node.name.endswith("__") \
                and node.name not in public_calls \
                and all(ast.unparse(d) == "staticmethod" for d in node.decorator_list):
            tr.helpers[node.name] = node
    for name, fnode in funcs.items():
        fbody = strip_doc(fnode.body)
        if name.startswith("_") and len(fbody) == 1 and isinstance(fbody[0], ast.Return) and not fnode.decorator_list:
            tr.module_helpers[name] = fnode
    for node in strip_doc(settings_cls.body):
        tr.dicts = {}
        if isinstance(node, ast.FunctionDef) and node.name in tr.helpers:
            continue
        if isinstance(node, ast.Assign):
            continue  # __instance = None
        if not isinstance(node, ast.FunctionDef):
            terr(node, "unexpected class member")
        decos = [ast.unparse(d) for d in node.decorator_list]
        body = strip_doc(node.body)
        args = [a.arg for a in node.args.args]
        if node.name == "get_instance":
            continue  # singleton accessor: modelled (one store), see Model/Settings.v
        if node.name == "__init__":
            if len(body) != 1 or not isinstance(body[0], ast.Assign) or tr.key_of(
                    ast.Subscript(value=body[0].targets[0], slice=ast.Constant("x"))) is None:
                terr(node, "__init__ shape")
            table = tr.dict_of(body[0].value)
            if not isinstance(table, ast.Dict):
                terr(node, "__init__: dict literal (or a parameterless private helper returning one) expected")
            items = flat_dict(table, "")
            out.append("Definition init_cfg : store :=\n  [{}].\n".format(
                ";\n   ".join("({}, {})".format(coq_string(k), v) for k, v in items)))
            seen_init = True
        elif decos == ["property"]:
            if len(body) != 1 or not isinstance(body[0], ast.Return):
                terr(node, "getter shape")
            out.append("Definition get_{} (s : store) : res pv := {}.\n".format(
                node.name, tr.expr(body[0].value, {})))
            getters.append(node.name)
        elif len(decos) == 1 and decos[0].endswith(".setter"):
            if len(args) != 2:
                terr(node, "setter arity")
            env = {args[1]: "a_" + args[1]}
            out.append("Definition set_{} (a_{} : pv) : stmt :=\n  {}.\n".format(
                node.name, args[1], tr.stmts(node.body, env)))
            tr.procs[node.name] = "set_" + node.name
        elif not decos and len(args) == 2:
            env = {args[1]: "a_" + args[1]}
            out.append("Definition m_{} (a_{} : pv) : stmt :=\n  {}.\n".format(
                node.name, args[1], tr.stmts(node.body, env)))
            tr.procs[node.name] = "m_" + node.name
        elif not decos and len(args) == 1:
            out.append("Definition m_{} : stmt :=\n  {}.\n".format(node.name, tr.stmts(node.body, {})))
            tr.procs[node.name] = "m_" + node.name
        else:
            terr(node, "method shape")
    if not seen_init:
        terr(settings_cls, "no __init__")

    # module-level API functions: thin wrappers around the singleton's setters / methods
    def is_get_settings_call(n):
        return isinstance(n, ast.Call) and isinstance(n.func, ast.Name) and n.func.id == "get_settings" \
            and not n.args and not n.keywords

    wrapper_shape = None
    for name, node in funcs.items():
        body = strip_doc(node.body)
        args = [a.arg for a in node.args.args]
        if name == "get_settings" or name in tr.module_helpers:
            continue
        if name == "use_mc_sample_size":
            wrapper_shape = _wrapper_shape(file, node)
            continue
        if len(body) != 1:
            terr(node, "api function shape")
        st = body[0]
        if len(args) == 1 and isinstance(st, ast.Assign) and len(st.targets) == 1 \
                and isinstance(st.targets[0], ast.Attribute) and is_get_settings_call(st.targets[0].value) \
                and isinstance(st.value, ast.Name) and st.value.id == args[0] \
                and st.targets[0].attr in tr.procs:
            out.append("Definition api_{} : pv -> stmt := {}.".format(name, tr.procs[st.targets[0].attr]))
        elif isinstance(st, ast.Expr) and isinstance(st.value, ast.Call) \
                and isinstance(st.value.func, ast.Attribute) and is_get_settings_call(st.value.func.value) \
                and st.value.func.attr in tr.procs and not st.value.keywords:
            cargs = st.value.args
            if len(args) == 1 and len(cargs) == 1 and isinstance(cargs[0], ast.Name) and cargs[0].id == args[0]:
                out.append("Definition api_{} : pv -> stmt := {}.".format(name, tr.procs[st.value.func.attr]))
            elif not args and not cargs:
                out.append("Definition api_{} : stmt := {}.".format(name, tr.procs[st.value.func.attr]))
            else:
                terr(node, "api call shape")
        else:
            terr(node, "api function shape")
        api.append(name)
    if wrapper_shape is None:
        terr(tree, "use_mc_sample_size not found")
    out.append("")
    out.append("(* shape of use_mc_sample_size.inner_wrapper: true = the restoring call is in a `finally` block *)")
    out.append("Definition wrapper_restores_in_finally : bool := {}.".format(
        "true" if wrapper_shape == "finally" else "false"))
    return "\n".join(out) + "\n"


def _wrapper_shape(file, node):
    """Recognise the two shapes of use_mc_sample_size(size)(func)(*args):
         temp = get_settings().monte_carlo_sample_size ; set_monte_carlo_sample_size(size)
         [try:] result = func(*args) [finally:] set_monte_carlo_sample_size(temp) ; return result
    """
    def terr(n, msg):
        raise TranslateError(file, n, "use_mc_sample_size: " + msg)

    def only_def(body, what):
        body = strip_doc(body)
        defs = [b for b in body if isinstance(b, ast.FunctionDef)]
        rets = [b for b in body if isinstance(b, ast.Return)]
        if len(defs) != 1 or len(rets) != 1 or len(body) != 2 or not isinstance(rets[0].value, ast.Name) \
                or rets[0].value.id != defs[0].name:
            terr(node, what)
        return defs[0]

    size_arg = [a.arg for a in node.args.args]
    if len(size_arg) != 1:
        terr(node, "arity")
    outer = only_def(node.body, "outer shape")
    inner = only_def(outer.body, "inner shape")
    func_arg = outer.args.args[0].arg
    body = strip_doc(inner.body)

    def is_save(st):
        return isinstance(st, ast.Assign) and len(st.targets) == 1 and isinstance(st.targets[0], ast.Name) \
            and ast.unparse(st.value) == "get_settings().monte_carlo_sample_size"

    def is_set(st, argname):
        return isinstance(st, ast.Expr) and ast.unparse(st.value) == "set_monte_carlo_sample_size({})".format(argname)

    def is_run(st):
        return isinstance(st, ast.Assign) and len(st.targets) == 1 and isinstance(st.targets[0], ast.Name) \
            and ast.unparse(st.value) == "{}(*args)".format(func_arg)

    if len(body) < 3 or not is_save(body[0]) or not is_set(body[1], size_arg[0]):
        terr(inner, "prologue")
    temp = body[0].targets[0].id
    last = body[-1]
    if len(body) == 5 and is_run(body[2]) and is_set(body[3], temp) and isinstance(last, ast.Return) \
            and ast.unparse(last.value) == body[2].targets[0].id:
        return "sequential"
    if len(body) == 4 and isinstance(body[2], ast.Try) and not body[2].handlers and not body[2].orelse \
            and len(body[2].body) == 1 and is_run(body[2].body[0]) and len(body[2].finalbody) == 1 \
            and is_set(body[2].finalbody[0], temp) and isinstance(last, ast.Return) \
            and ast.unparse(last.value) == body[2].body[0].targets[0].id:
        return "finally"
    if len(body) == 3 and isinstance(body[2], ast.Try) and not body[2].handlers and not body[2].orelse \
            and len(body[2].body) == 1 and isinstance(body[2].body[0], ast.Return) \
            and ast.unparse(body[2].body[0].value) == "{}(*args)".format(func_arg) and len(body[2].finalbody) == 1 \
            and is_set(body[2].finalbody[0], temp):
        return "finally"          # try: return func(*args)  finally: restore   (same control flow)
    terr(inner, "body shape")


GENERATORS = {
    "SettingsGen": gen_settings,
}


def _discover():
    """further generators live in tools/gens/*.py, each exposing GENERATORS = {"Name": function(repo) -> text}"""
    import glob
    import importlib.util
    here = os.path.dirname(os.path.abspath(__file__))
    if here not in sys.path:
        sys.path.insert(0, here)
    sys.modules.setdefault("translate", sys.modules[__name__])
    for path in sorted(glob.glob(os.path.join(here, "gens", "*.py"))):
        name = "gens_" + os.path.basename(path)[:-3]
        spec = importlib.util.spec_from_file_location(name, path)
        mod = importlib.util.module_from_spec(spec)
        spec.loader.exec_module(mod)
        GENERATORS.update(getattr(mod, "GENERATORS", {}))


_discover()


def write_if_changed(path, text):
    if os.path.exists(path) and open(path).read() == text:
        return False
    with open(path, "w") as f:
        f.write(text)
    return True


def run(names=None, repo=None, outdir=None):
    """returns (written_files, errors) ; errors = list of obligation strings"""
    repo = repo or REPO
    outdir = outdir or os.path.join(os.path.dirname(os.path.abspath(__file__)), "..", "coq", "Gen")
    os.makedirs(outdir, exist_ok=True)
    errors, written = [], []
    for name in (sorted(GENERATORS) if names is None else names):      # [] = none (a check without generated files)
        try:
            text = GENERATORS[name](repo)
        except TranslateError as e:
            errors.append(e.obligation)
            continue
        except (SyntaxError, OSError, ValueError, KeyError, IndexError, AttributeError) as e:
            errors.append("translate:{}:0:{}: {}".format(name, type(e).__name__, e))
            continue
        if write_if_changed(os.path.join(outdir, name + ".v"), text):
            written.append(name)
    return written, errors


if __name__ == "__main__":
    argv = sys.argv[1:]
    repo = outdir = None
    while argv and argv[0].startswith("--"):
        if argv[0] == "--repo":
            repo = argv[1]
        elif argv[0] == "--out":
            outdir = argv[1]
        argv = argv[2:]
    w, errs = run(argv or None, repo, outdir)
    for e in errs:
        print("TRANSLATE-ERROR", e)
    print("written:", w)
    sys.exit(1 if errs else 0)
