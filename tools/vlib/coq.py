"""Building the Rocq development and evaluating generated case files."""
import fcntl
import glob
import os
import re
import shutil
import subprocess
import sys
from concurrent.futures import ThreadPoolExecutor

from .core import COQ, VERIF

sys.path.insert(0, os.path.join(VERIF, "tools"))
import translate  # noqa: E402

FORBIDDEN = re.compile(
    r"\b(Admitted|admit|Axiom|Axioms|Parameter|Parameters|Conjecture|Conjectures|Admit\s+Obligations|"
    r"bypass_check)\b|Unset\s+Guard|Unset\s+Positivity|Unset\s+Universe|-type-in-type|-impredicative-set")

# axioms of the standard library (and Coquelicot's dependencies) that may appear in Print Assumptions
ALLOWED_AXIOMS = {
    "ClassicalDedekindReals.sig_forall_dec", "ClassicalDedekindReals.sig_not_dec",
    "FunctionalExtensionality.functional_extensionality_dep", "functional_extensionality_dep",
    "Classical_Prop.classic", "classic", "sig_forall_dec", "sig_not_dec",
    "ProofIrrelevance.proof_irrelevance", "proof_irrelevance",
    "ClassicalEpsilon.constructive_indefinite_description", "constructive_indefinite_description",
    "Eqdep.Eq_rect_eq.eq_rect_eq", "JMeq.JMeq_eq",
    "PropExtensionality.propositional_extensionality", "propositional_extensionality",
}


def coq_files():
    files = []
    for sub in ("Base", "Model", "Proofs", "Props"):
        files += sorted(glob.glob(os.path.join(COQ, sub, "*.v")))
    files += [os.path.join(COQ, "Gen", n + ".v") for n in sorted(translate.GENERATORS)]
    return [os.path.relpath(f, COQ) for f in files]


class Lock:
    def __enter__(self):
        self.f = open(os.path.join(COQ, ".lock"), "w")
        fcntl.flock(self.f, fcntl.LOCK_EX)
        return self

    def __exit__(self, *a):
        fcntl.flock(self.f, fcntl.LOCK_UN)
        self.f.close()


def ensure_makefile():
    text = "-Q . QV\n-arg -w -arg -notation-overridden,-non-recursive,-deprecated-hint-without-locality,-deprecated-instance-without-locality\n" \
        + "\n".join(coq_files()) + "\n"
    path = os.path.join(COQ, "_CoqProject")
    changed = translate.write_if_changed(path, text)
    if changed or not os.path.exists(os.path.join(COQ, "Makefile")):
        subprocess.run(["coq_makefile", "-f", "_CoqProject", "-o", "Makefile"], cwd=COQ, check=True,
                       stdout=subprocess.DEVNULL, stderr=subprocess.DEVNULL)


def grep_gate(paths=None):
    """forbidden vernacular anywhere in the development (comments excluded)"""
    bad = []
    for rel in (paths or coq_files()):
        p = os.path.join(COQ, rel)
        if not os.path.exists(p):
            continue
        text = open(p).read()
        text = strip_comments(text)
        for m in FORBIDDEN.finditer(text):
            bad.append("{}: {}".format(rel, m.group(0)))
        # Variable / Hypothesis outside a Section
        depth = 0
        for line in text.split("\n"):
            s = line.strip()
            if re.match(r"^(Section|Module)\b", s):
                depth += 1
            elif re.match(r"^End\b", s):
                depth = max(0, depth - 1)
            elif depth == 0 and re.match(r"^(Variable|Variables|Hypothesis|Hypotheses|Context)\b", s):
                bad.append("{}: {} outside a Section".format(rel, s.split()[0]))
    return bad


def strip_comments(text):
    out, depth, i = [], 0, 0
    while i < len(text):
        if text.startswith("(*", i):
            depth += 1
            i += 2
        elif text.startswith("*)", i) and depth:
            depth -= 1
            i += 2
        else:
            if not depth:
                out.append(text[i])
            i += 1
    return "".join(out)


def translate_all(names):
    """regenerate Gen/*.v from REPO; returns list of broken obligations"""
    with Lock():
        _, errors = translate.run(names)
    return errors


def make(targets, timeout=1500, jobs=8):
    """returns (ok, obligation_or_None, log)"""
    with Lock():
        ensure_makefile()
        cmd = ["timeout", str(timeout), "make", "-j{}".format(jobs)] + targets
        p = subprocess.run(cmd, cwd=COQ, stdout=subprocess.PIPE, stderr=subprocess.STDOUT, text=True)
    if p.returncode == 0:
        return True, None, p.stdout
    return False, locate_error(p.stdout), p.stdout


def locate_error(log):
    """name the lemma / theorem whose proof (or the definition that) no longer checks"""
    m = None
    for m in re.finditer(r'File "\./([^"]+)", line (\d+), characters (\d+)-(\d+):\s*\n\s*Error', log):
        pass
    if not m:
        if "timeout" in log or "Terminated" in log:
            return "build: timeout"
        return "build: " + (log.strip().split("\n")[-1][:200] if log.strip() else "failed")
    rel, line = m.group(1), int(m.group(2))
    name = "?"
    try:
        lines = open(os.path.join(COQ, rel)).read().split("\n")
        for i in range(min(line, len(lines)) - 1, -1, -1):
            mm = re.match(r"\s*(?:Local\s+|Global\s+|#\[[^\]]*\]\s*)?(Theorem|Lemma|Corollary|Example|Fact|Remark|Definition|Fixpoint|"
                          r"Proposition|Instance|Program\s+\w+|Function|Ltac)\s+([\w']+)", lines[i])
            if mm:
                name = mm.group(1) + " " + mm.group(2)
                break
    except OSError:
        pass
    msg = log[m.end():].strip().split("\n")[0][:160]
    return "{}:{}: {} ({})".format(rel, line, name, msg)


def print_assumptions(props_rel, timeout=600):
    """re-run coqc on a Props file; returns (ok, {theorem: [axioms]}, log)"""
    p = subprocess.run(["timeout", str(timeout), "coqc", "-Q", ".", "QV", "-w", "-notation-overridden", props_rel],
                       cwd=COQ, stdout=subprocess.PIPE, stderr=subprocess.STDOUT, text=True)
    text = strip_comments(open(os.path.join(COQ, props_rel)).read())
    names = re.findall(r"Print\s+Assumptions\s+([\w'.]+)\s*\.", text)
    if p.returncode != 0:
        return False, {}, p.stdout
    # split the output into blocks: one per Print Assumptions, in order
    blocks = re.split(r"(?m)^(?=Closed under the global context|Axioms:)", p.stdout)
    blocks = [b for b in blocks if b.startswith("Closed under") or b.startswith("Axioms:")]
    result = {}
    for name, b in zip(names, blocks):
        if b.startswith("Closed"):
            result[name] = []
        else:
            result[name] = re.findall(r"(?m)^([\w'.]+)\s*:", b[len("Axioms:"):])
    if len(blocks) != len(names):
        return False, result, p.stdout + "\n[print_assumptions: {} blocks for {} theorems]".format(len(blocks), len(names))
    return True, result, p.stdout


def theorems_in(rel):
    text = strip_comments(open(os.path.join(COQ, rel)).read())
    return re.findall(r"(?m)^\s*(?:Theorem|Lemma|Corollary|Example|Fact|Remark|Proposition)\s+([\w']+)", text)


def dependency_closure(rel):
    """QV-internal .v files that [rel] transitively requires (by coqdep)"""
    seen, todo = [], [rel]
    while todo:
        f = todo.pop()
        if f in seen or not os.path.exists(os.path.join(COQ, f)):
            continue
        seen.append(f)
        p = subprocess.run(["coqdep", "-Q", ".", "QV", f], cwd=COQ, stdout=subprocess.PIPE,
                           stderr=subprocess.DEVNULL, text=True)
        for dep in re.findall(r"([\w/]+)\.vo", p.stdout.split(":", 1)[1] if ":" in p.stdout else ""):
            d = dep + ".v"
            if d not in seen:
                todo.append(d)
    return seen


def count_obligations(props_rel):
    files = dependency_closure(props_rel)
    names = []
    for f in files:
        names += ["{}:{}".format(f, n) for n in theorems_in(f)]
    return names


HEADER = "From Coq Require Import List ZArith QArith Bool String.\nImport ListNotations.\nOpen Scope string_scope.\n"


def run_case_files(prop_id, shards, timeout=600, jobs=12, keep=False):
    """[shards]: list of Coq source texts, each ending in commands that print
         = [i; j; ...] : list nat      (indices of disagreeing cases in that shard)
    Returns (list of bad-index lists or None when the shard failed to evaluate, logs)"""
    d = os.path.join(COQ, "Cases", prop_id)
    shutil.rmtree(d, ignore_errors=True)
    os.makedirs(d, exist_ok=True)
    paths = []
    for k, text in enumerate(shards):
        p = os.path.join(d, "cases_{}_{}.v".format(prop_id, k))
        with open(p, "w") as f:
            f.write(text)
        paths.append(p)

    def one(p):
        r = subprocess.run("ulimit -s unlimited 2>/dev/null; exec timeout {} coqc -noglob -Q {} QV -w -notation-overridden {}".format(
            timeout, COQ, p), shell=True, cwd=d, stdout=subprocess.PIPE, stderr=subprocess.STDOUT, text=True)
        if r.returncode != 0:
            return None, r.stdout[-2000:]
        out = []
        for m in re.finditer(r"=\s*\[([^\]]*)\]\s*:\s*list\s+nat", r.stdout):
            out.append([int(x) for x in re.findall(r"\d+", m.group(1))])
        if not out:
            return None, r.stdout[-2000:]
        return out, ""

    with ThreadPoolExecutor(max_workers=jobs) as ex:
        results = list(ex.map(one, paths))
    if not keep:
        shutil.rmtree(d, ignore_errors=True)
    return [r[0] for r in results], [r[1] for r in results]


def eval_terms(prop_id, header, terms, timeout=300):
    """evaluate Coq terms with vm_compute and return the raw printed results (for replays / debugging)"""
    text = header + "\n" + "\n".join("Eval vm_compute in ({}).".format(t) for t in terms) + "\n"
    d = os.path.join(COQ, "Cases", prop_id + "_eval")
    shutil.rmtree(d, ignore_errors=True)
    os.makedirs(d, exist_ok=True)
    p = os.path.join(d, "eval.v")
    open(p, "w").write(text)
    r = subprocess.run(["timeout", str(timeout), "coqc", "-Q", COQ, "QV", "-w", "-notation-overridden", p], cwd=d,
                       stdout=subprocess.PIPE, stderr=subprocess.STDOUT, text=True)
    shutil.rmtree(d, ignore_errors=True)
    return r.returncode == 0, r.stdout
