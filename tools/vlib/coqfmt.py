"""Formatting of Python data as Coq terms for generated case files."""
from fractions import Fraction


def zlit(n):
    return "({})%Z".format(int(n))


def natlit(n):
    return "{}%nat".format(int(n))


def qlit(x):
    fr = Fraction(x)
    return "({} # {})".format(fr.numerator, fr.denominator)


def coq_string(s):
    for ch in s:
        if ord(ch) > 126 or ord(ch) < 32:
            raise ValueError("non-ascii in Coq string literal: " + repr(s))
    return '"' + s.replace('"', '""') + '"'


def coq_list(items):
    return "[" + "; ".join(items) + "]"


def codepoints(s):
    """a Python str as a Coq list of N code points"""
    return "[" + "; ".join("{}%N".format(ord(c)) for c in s) + "]"


def coq_bool(b):
    return "true" if b else "false"


def coq_option(x, f):
    return "None" if x is None else "(Some {})".format(f(x))


# ---- tagged JSON encoding of Python values (PyVal) ----
def pv_from_py(obj):
    import enum
    if obj is None:
        return ["none"]
    if isinstance(obj, bool):
        return ["bool", obj]
    if isinstance(obj, int):
        return ["int", obj]
    if isinstance(obj, float):
        if obj != obj or obj in (float("inf"), float("-inf")):
            return ["floatx", repr(obj)]
        return ["float", obj.hex()]
    if isinstance(obj, str):
        return ["str", obj]
    if isinstance(obj, enum.Enum):
        return ["enum", type(obj).__name__, obj.name]
    if isinstance(obj, tuple):
        return ["tuple", [pv_from_py(x) for x in obj]]
    if isinstance(obj, list):
        return ["list", [pv_from_py(x) for x in obj]]
    return ["other", type(obj).__name__, repr(obj)[:40]]


def pv_to_py(j, enums=None):
    t = j[0]
    if t == "none":
        return None
    if t in ("bool", "int", "str"):
        return j[1]
    if t == "float":
        return float.fromhex(j[1])
    if t == "floatx":
        return float(j[1])
    if t == "enum":
        return getattr(enums[j[1]], j[2])
    if t == "tuple":
        return tuple(pv_to_py(x, enums) for x in j[1])
    if t == "list":
        return [pv_to_py(x, enums) for x in j[1]]
    raise ValueError(j)


def pv_to_coq(j):
    t = j[0]
    if t == "none":
        return "PNone"
    if t == "bool":
        return "(PBool {})".format(coq_bool(j[1]))
    if t == "int":
        return "(PInt {})".format(zlit(j[1]))
    if t == "float":
        return "(PFloat {})".format(qlit(float.fromhex(j[1])))
    if t == "str":
        return "(PStr {})".format(coq_string(j[1]))
    if t == "enum":
        return "(PEnum {} {})".format(coq_string(j[1]), coq_string(j[2]))
    if t == "tuple":
        return "(PTuple {})".format(coq_list([pv_to_coq(x) for x in j[1]]))
    if t == "list":
        return "(PList {})".format(coq_list([pv_to_coq(x) for x in j[1]]))
    raise ValueError("value outside PyVal: {}".format(j))


class Interner:
    """Share repeated sub-terms of a case file: each distinct term text is defined once and
    referred to by name (string literals are expensive for coqc to elaborate)."""

    def __init__(self, prefix="t"):
        self.prefix, self.names, self.defs = prefix, {}, []

    def __call__(self, term):
        if len(term) < 12:
            return term
        n = self.names.get(term)
        if n is None:
            n = "{}{}".format(self.prefix, len(self.names))
            self.names[term] = n
            self.defs.append("Definition {} := {}.".format(n, term))
        return n

    def text(self):
        return "\n".join(self.defs) + "\n"
