"""Shared plumbing of the QExPy verification checks."""
import hashlib
import json
import os
import random
import sys
import time

VERIF = os.path.dirname(os.path.dirname(os.path.dirname(os.path.abspath(__file__))))
COQ = os.path.join(VERIF, "coq")
REPO = os.environ.get("QEXPY_REPO", "/repo")
GUARD = "QEXPY_VERIF"


def setup_impl():
    """make `import qexpy` resolve to REPO's working tree, non-interactive backend, fixed hashing"""
    os.environ.setdefault("MPLBACKEND", "Agg")
    os.environ[GUARD] = "1"
    if sys.path[0] != REPO:
        sys.path.insert(0, REPO)
    import warnings
    warnings.filterwarnings("ignore", category=DeprecationWarning)
    import qexpy
    assert os.path.abspath(qexpy.__file__).startswith(os.path.abspath(REPO) + os.sep), qexpy.__file__
    return qexpy


def fresh_impl():
    """forget every qexpy module and import the library again: whatever the library keeps between calls (module-level
    caches, registries, settings) starts as in a new interpreter.  The harness imports qexpy inside its functions, so it
    picks up the new modules."""
    for k in [m for m in sys.modules if m == "qexpy" or m.startswith("qexpy.")]:
        del sys.modules[k]
    return setup_impl()


def minimize_session(prefix, fails):
    """delta debugging (complements only) of the cases that ran before a failing one: the shortest prefix found for
    which [fails(prefix)] still holds; [fails] must start from a fresh library state"""
    items = list(prefix)
    n = 2
    while items:
        chunk = -(-len(items) // n)
        removed = False
        for i in range(0, len(items), chunk):
            cand = items[:i] + items[i + chunk:]
            try:
                bad = fails(cand)
            except Exception:
                bad = False
            if bad:
                items, n, removed = cand, max(n - 1, 2), True
                break
        if not removed:
            if chunk == 1:
                break
            n = min(n * 2, len(items))
    return items


class Ctx:
    def __init__(self, prop_id, tier, seed):
        self.prop_id, self.tier, self.seed = prop_id, tier, seed
        h = int(hashlib.sha256("{}:{}".format(prop_id, seed).encode()).hexdigest()[:16], 16)
        self.rng = random.Random(h)
        self.t0 = time.time()
        self.notes = []

    @property
    def quick(self):
        return self.tier == "quick"

    def n(self, quick, thorough):
        return quick if self.quick else thorough

    def elapsed(self):
        return time.time() - self.t0


class Violation:
    """a concrete failing input found on the implementation by a property-level oracle"""

    def __init__(self, prop_id, kind, case, what, key=None):
        self.prop_id, self.kind, self.case, self.what = prop_id, kind, case, what
        self.key = key or canonical_key(kind, case)

    def to_json(self):
        return {"property": self.prop_id, "kind": self.kind, "case": self.case, "what": self.what,
                "key": self.key}


def canonical_key(kind, case):
    return kind + ":" + hashlib.sha256(json.dumps(case, sort_keys=True).encode()).hexdigest()[:16]


class CorrResult:
    """outcome of a correspondence run (model vs implementation on the same inputs)"""

    def __init__(self):
        self.evaluations = 0          # cases executed on both sides
        self.nontrivial = set()       # canonical keys of distinct non-trivial cases
        self.rule = ""
        self.samples = []             # a few cases written out
        self.distribution = {}        # histogram of input kinds
        self.disagreements = []       # list of dicts {"name":..., "case":...}
        self.traces = 0               # traces validated against the implementation
        self.exhaustive = False
        self.extra = {}

    def count(self, key, n=1):
        self.distribution[key] = self.distribution.get(key, 0) + n

    def merge(self, other):
        self.evaluations += other.evaluations
        self.nontrivial |= other.nontrivial
        self.samples += other.samples
        self.disagreements += other.disagreements
        self.traces += other.traces
        for k, v in other.distribution.items():
            self.count(k, v)
        self.extra.update(other.extra)
        if other.rule:
            self.rule = (self.rule + " | " + other.rule) if self.rule else other.rule


def shrink_list(items, fails, max_rounds=6):
    """greedy delta-debugging: remove elements while [fails(items)] stays true"""
    items = list(items)
    for _ in range(max_rounds):
        changed = False
        i = 0
        while i < len(items):
            cand = items[:i] + items[i + 1:]
            try:
                bad = fails(cand)
            except Exception:
                bad = False
            if bad:
                items = cand
                changed = True
            else:
                i += 1
        if not changed:
            break
    return items


def fresh_process_fails(violation):
    """re-run one recorded violation with `run_check.py <id> --replay` in a fresh interpreter; True iff it still fails"""
    import subprocess
    import tempfile
    with tempfile.NamedTemporaryFile("w", suffix=".json", delete=False, dir=os.path.join(VERIF, "replays")
                                     if os.path.isdir(os.path.join(VERIF, "replays")) else None) as f:
        json.dump({"violation": violation.to_json()}, f)
        path = f.name
    try:
        r = subprocess.run([sys.executable, os.path.join(VERIF, "tools", "run_check.py"), violation.prop_id, "--replay", path],
                           stdout=subprocess.PIPE, stderr=subprocess.STDOUT, text=True, timeout=600, env=dict(os.environ))
        return r.returncode == 1
    except Exception:
        return False
    finally:
        try:
            os.unlink(path)
        except OSError:
            pass
